/* Forced include for h3Index.c only (CBMC builds).  CBMC has no semantics for the variadic
 * formatter/parser, so the two calls in h3ToString/stringToH3 are redirected to two
 * non-variadic prototypes whose contracts (contracts/c20.contracts.h) are ASSUMED; their
 * requires-clauses (format is exactly "%lx", full 64-bit value, >= 17 writable bytes) are
 * CHECKED at the call sites in the real code.  No token of /repo is changed. */
#ifndef H3V_PRE_LIBC_H
#define H3V_PRE_LIBC_H
#include <stdio.h>
#include <stdint.h>
int h3v_sprintf_lx(char *dst, const char *fmt, uint64_t v);
int h3v_sscanf_lx(const char *src, const char *fmt, uint64_t *out);
#define sprintf h3v_sprintf_lx
#define sscanf h3v_sscanf_lx
#endif
