/* Fault-injecting allocator model reached through the library's own H3_ALLOC_PREFIX switch
 * (-DH3_ALLOC_PREFIX=h3v_).  Every request may fail nondeterministically, so one proof covers
 * every failure index of every call.  Ghost state:
 *   h3v_live   number of blocks handed out and not yet freed
 *   h3v_failed some request was refused
 * CBMC's built-in preconditions of free() (valid, dynamic, offset 0, not yet freed) give
 * "no double free / no invalid free". */
#include <stdlib.h>
#include <stdint.h>
int64_t h3v_live;
_Bool h3v_failed;
_Bool nondet_bool(void);

void *h3v_malloc(size_t size) {
    if (nondet_bool()) { h3v_failed = 1; return (void *)0; }
    void *p = malloc(size);
    __CPROVER_assume(p != (void *)0);
    h3v_live++;
    return p;
}
void *h3v_calloc(size_t num, size_t size) {
    if (nondet_bool()) { h3v_failed = 1; return (void *)0; }
    void *p = calloc(num, size);
    __CPROVER_assume(p != (void *)0);
    h3v_live++;
    return p;
}
void *h3v_realloc(void *ptr, size_t size) {
    if (nondet_bool()) { h3v_failed = 1; return (void *)0; }
    void *p = realloc(ptr, size);
    __CPROVER_assume(p != (void *)0);
    if (ptr == (void *)0) h3v_live++;
    return p;
}
void h3v_free(void *ptr) {
    if (ptr != (void *)0) h3v_live--;
    free(ptr);
}
