/* Forced include for all library sources (CBMC builds only).  glibc's isfinite() expands to the compiler builtin
 * __builtin_isfinite, for which CBMC 6.11 has no body and which breaks the DFCC instrumentation (mistyped write-set
 * parameter).  Redirect the macro to CBMC's own primitive with the same meaning.  No token of /repo is changed. */
#ifndef H3V_PRE_MATH_H
#define H3V_PRE_MATH_H
#include <math.h>
#undef isfinite
#define isfinite(x) __CPROVER_isfinited((double)(x))
#endif
