/* Native brute-force validation of the spec vocabulary itself (run by `h3v setup`): for every digit count n <= 6 and both contexts,
 * sf_posn enumerates the legal strings in increasing order as 0,1,2,..., sf_nextn is the successor, sf_countn the count;
 * hex text macros against printf. */
#include <string.h>
#include <stdio.h>
#include <stdlib.h>
#include "spec.h"
#include "../contracts/faces.h"
/* brute-force check of the spec functions themselves for small n */
static int face_graph_ok(void){
  /* symmetric, 3-regular, no loops; exactly twelve 5-subsets are rings (one per icosahedron vertex); every face lies in exactly three rings */
  int inring[20]={0}, rings=0;
  for(int f=0;f<20;f++) for(int e=0;e<3;e++){ int g=S_FACE_ADJ[f][e]; if(g<0||g>19||g==f||!sf_face_adj(g,f)) return 0;
    for(int e2=0;e2<e;e2++) if(S_FACE_ADJ[f][e2]==g) return 0; }
  for(int a=0;a<20;a++)for(int b=a+1;b<20;b++)for(int c=b+1;c<20;c++)for(int d=c+1;d<20;d++)for(int e=d+1;e<20;e++){
    int o[5]={a,b,c,d,e}; if(sf_face_ring5(o)){ rings++; for(int i=0;i<5;i++) inring[o[i]]++; } }
  if(rings!=12) return 0;
  for(int f=0;f<20;f++) if(inring[f]!=3) return 0;
  return 1;
}
int main(void){
  if(!face_graph_ok()){ printf("icosahedron face adjacency spec is not a 3-regular symmetric graph with twelve 5-rings\n"); return 1; }
  for (int pent=0; pent<2; pent++) for (int n=0;n<=6;n++){
    long cnt=0; unsigned long prev=~0ul; 
    for (unsigned long y=0; y < (1ul<<(3*n)); y++){
      if(!sf_legaln(y,n,pent)) continue;
      if (sf_posn(y,n,pent)!=cnt) {printf("pos mismatch n=%d pent=%d y=%lo pos=%ld cnt=%ld\n",n,pent,y,(long)sf_posn(y,n,pent),cnt); return 1;}
      if (prev!=~0ul && sf_nextn(prev,n,pent)!=y){printf("next mismatch n=%d pent=%d prev=%lo y=%lo got=%lo\n",n,pent,prev,y,(unsigned long)sf_nextn(prev,n,pent)); return 1;}
      prev=y; cnt++;
    }
    if (prev!=~0ul && sf_nextn(prev,n,pent)!=S_NONE){printf("last not none\n");return 1;}
    if (cnt!=sf_countn(n,pent)){printf("count mismatch n=%d pent=%d %ld %ld\n",n,pent,cnt,(long)sf_countn(n,pent));return 1;}
  }
  unsigned long x=0x85283473fffffffUL; printf("pos %ld posm %ld next %lx\n",(long)sf_pos(x,2),(long)S_POSM(x,2),(unsigned long)sf_next(x,2));
  x=0x8508000ffffffffUL|0; printf("pent pos %ld posm %ld\n",(long)sf_pos(0x85080053fffffffUL,0),(long)S_POSM(0x85080053fffffffUL,0));
  { unsigned long vs[] = {0, 1, 15, 16, 0xcafe, 0x8001fffffffffffUL, ~0ul, ~0ul - 1, 1ul << 63};
    for (unsigned i = 0; i < sizeof vs / sizeof *vs; i++) { char b[32]; snprintf(b, sizeof b, "%lx", vs[i]);
      if ((int)strlen(b) != S_HEXLEN(vs[i]) || !S_STR_IS_HEX(b, vs[i])) { printf("hex spec mismatch for %lx\n", vs[i]); return 1; } } }
  puts("spec self-test ok"); return 0; }
