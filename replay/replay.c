/* Native replay: calls the REAL library function on a counterexample and evaluates the same
 * spec.h postcondition that the contract uses.  exit 3 = violation confirmed on the real
 * code, 0 = real code agrees with the spec on this input, 2 = usage. */
#include <inttypes.h>
#include <stdio.h>
#include <stdlib.h>
#include <string.h>
#include "h3api.h"
#include "h3Index.h"
#include "algos.h"
#include "iterators.h"
#include "spec.h"
#include "faces.h"

/* allocator shim (library is built with -DH3_ALLOC_PREFIX=h3v_) */
static long h3v_fail_at = -1, h3v_count = 0, h3v_live = 0;
void *h3v_malloc(size_t n) { if (h3v_count++ == h3v_fail_at) return 0; h3v_live++; return malloc(n); }
void *h3v_calloc(size_t a, size_t b) { if (h3v_count++ == h3v_fail_at) return 0; h3v_live++; return calloc(a, b); }
void *h3v_realloc(void *p, size_t n) { if (h3v_count++ == h3v_fail_at) return 0; if (!p) h3v_live++; return realloc(p, n); }
void h3v_free(void *p) { if (p) h3v_live--; free(p); }

/* C17 oracle: run call() with the i-th allocation refused, for i = 0..upto; a refused request must yield E_MEMORY_ALLOC,
 * and no block may stay allocated on any exit.  Returns a message or NULL. */
static char c17_msg[256];
#define C17_RUN(upto, CALL, DESC, BAD)                                                                             \
    for (long fi = -1; fi <= (upto); fi++) {                                                                  \
        h3v_fail_at = fi; h3v_count = 0; h3v_live = 0;                                                         \
        H3Error rc_ = (CALL);                                                                                 \
        int refused_ = (fi >= 0 && h3v_count > fi);                                                            \
        if (h3v_live != 0) { snprintf(c17_msg, sizeof c17_msg, "%s: %ld block(s) still allocated on return (rc %u, refused allocation #%ld)", DESC, h3v_live, rc_, fi); goto BAD; } \
        if (refused_ && rc_ != S_ERR_MEMORY_ALLOC) { snprintf(c17_msg, sizeof c17_msg, "%s: allocation #%ld was refused but the call returned %u instead of E_MEMORY_ALLOC(13)", DESC, fi, rc_); goto BAD; } \
        if (!refused_ && fi >= 0) break;                                                                      \
    }
static uint64_t U(const char *s) { return strtoull(s, 0, 0); }
static int64_t I(const char *s) { return strtoll(s, 0, 0); }
#define DISAGREE(...) do { printf("DISAGREE: " __VA_ARGS__); printf("\n"); return 3; } while (0)
#define AGREE(...) do { printf("AGREE: " __VA_ARGS__); printf("\n"); return 0; } while (0)

int main(int argc, char **argv) {
    if (argc < 2) return 2;
    const char *fn = argv[1];
    char **a = argv + 2;
    int n = argc - 2;
    if (!strcmp(fn, "isValidCell") && n == 1) {
        H3Index h = U(a[0]);
        int lib = isValidCell(h), spec = S_VALID_CELL(h) ? 1 : 0;
        if (lib != spec) DISAGREE("isValidCell(0x%" PRIx64 ") = %d, documented layout says %d", h, lib, spec);
        AGREE("isValidCell(0x%" PRIx64 ") = %d", h, lib);
    }
#include "replay_cases.inc"
    printf("unknown replay function %s/%d\n", fn, n);
    return 2;
}
