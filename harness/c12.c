#include "c12.contracts.h"
H3Index h3v_w, h3v_w2, h3v_v;
int64_t h3v_g, h3v_n, h3v_dist;
H3Error h3v_err, h3v_derr;
double h3v_dbl;
#define RES_TABLE_H(NAME) void h_##NAME(void) { int res = nondet_int(); double *out; H3Error e = NAME(res, out); __CPROVER_assert(0, "canary " #NAME); }
RES_TABLE_H(getHexagonAreaAvgKm2)
RES_TABLE_H(getHexagonAreaAvgM2)
RES_TABLE_H(getHexagonEdgeLengthAvgKm)
RES_TABLE_H(getHexagonEdgeLengthAvgM)
void h_getResolution(void) { H3Index h = nondet_u64(); int r = getResolution(h); __CPROVER_assert(0, "canary getResolution"); }
void h_getBaseCellNumber(void) { H3Index h = nondet_u64(); int r = getBaseCellNumber(h); __CPROVER_assert(0, "canary getBaseCellNumber"); }
void h_isResClassIII(void) { H3Index h = nondet_u64(); int r = isResClassIII(h); __CPROVER_assert(0, "canary isResClassIII"); }
void h_maxFaceCount(void) { H3Index h = nondet_u64(); int *out; H3Error e = maxFaceCount(h, out); __CPROVER_assert(0, "canary maxFaceCount"); }
void h_describeH3Error(void) { H3Error err = nondet_u32(); const char *s = describeH3Error(err); __CPROVER_assert(0, "canary describeH3Error"); }
void h_maxGridDiskSize(void) { int k = nondet_int(); int64_t *out; H3Error e = maxGridDiskSize(k, out); __CPROVER_assert(0, "canary maxGridDiskSize"); }
void h_gridRingUnsafe(void) { H3Index origin = nondet_u64(); int k = nondet_int(); H3Index *out; h3v_g = nondet_i64(); H3Error e = gridRingUnsafe(origin, k, out); __CPROVER_assert(0, "canary gridRingUnsafe"); }
void h_cellToLocalIj(void) { H3Index origin = nondet_u64(), index = nondet_u64(); uint32_t mode = nondet_u32(); CoordIJ *out; H3Error e = cellToLocalIj(origin, index, mode, out); __CPROVER_assert(0, "canary cellToLocalIj"); }
void h_localIjToCell(void) { H3Index origin = nondet_u64(); const CoordIJ *ij; uint32_t mode = nondet_u32(); H3Index *out; H3Error e = localIjToCell(origin, ij, mode, out); __CPROVER_assert(0, "canary localIjToCell"); }
void h_gridDistance(void) { H3Index a = nondet_u64(), b = nondet_u64(); int64_t *out; H3Error e = gridDistance(a, b, out); __CPROVER_assert(0, "canary gridDistance"); }
void h_gridPathCellsSize(void) { H3Index a = nondet_u64(), b = nondet_u64(); int64_t *out; h3v_err = nondet_u32(); h3v_dist = nondet_i64(); H3Error e = gridPathCellsSize(a, b, out); __CPROVER_assert(0, "canary gridPathCellsSize"); }
void h_gridPathCells(void) { H3Index a = nondet_u64(), b = nondet_u64(); H3Index *out; h3v_err = nondet_u32(); h3v_dist = nondet_i64(); H3Error e = gridPathCells(a, b, out); __CPROVER_assert(0, "canary gridPathCells"); }
void h_latLngToCell(void) { const LatLng *g; int res = nondet_int(); H3Index *out; H3Error e = latLngToCell(g, res, out); __CPROVER_assert(0, "canary latLngToCell"); }

void h_upAp7Checked(void) { CoordIJK *c; H3Error e = _upAp7Checked(c); __CPROVER_assert(0, "canary _upAp7Checked"); }
void h_upAp7rChecked(void) { CoordIJK *c; H3Error e = _upAp7rChecked(c); __CPROVER_assert(0, "canary _upAp7rChecked"); }
void h_ijToIjk(void) { const CoordIJ *ij; CoordIJK *ijk; H3Error e = ijToIjk(ij, ijk); __CPROVER_assert(0, "canary ijToIjk"); }
H3Error _gridDiskDistancesInternal(H3Index origin, int k, H3Index *out, int *distances, int64_t maxIdx, int curK);
void h_gridDiskDistancesInternal(void) {
    H3Index origin = nondet_u64(); int k = nondet_int(); H3Index *out; int *distances; int64_t maxIdx = nondet_i64(); int curK = nondet_int();
    H3Error e = _gridDiskDistancesInternal(origin, k, out, distances, maxIdx, curK);
    __CPROVER_assert(0, "canary _gridDiskDistancesInternal");
}
void h_localIjkToCell(void) { H3Index origin = nondet_u64(); const CoordIJK *ijk; H3Index *out; H3Error e = localIjkToCell(origin, ijk, out); __CPROVER_assert(0, "canary localIjkToCell"); }
void h_cellToLocalIjk(void) { H3Index origin = nondet_u64(), h = nondet_u64(); CoordIJK *out; H3Error e = cellToLocalIjk(origin, h, out); __CPROVER_assert(0, "canary cellToLocalIjk"); }

void h_gridDiskDistancesUnsafe(void) { H3Index origin = nondet_u64(); int k = nondet_int(); H3Index *out; int *distances; h3v_n = nondet_i64();
    H3Error e = gridDiskDistancesUnsafe(origin, k, out, distances); __CPROVER_assert(0, "canary gridDiskDistancesUnsafe"); }

#define DBL_H(NAME) void h_##NAME(void) { H3Index x = nondet_u64(); double *out; h3v_derr = nondet_u32(); h3v_dbl = nondet_double(); H3Error e = NAME(x, out); __CPROVER_assert(0, "canary " #NAME); }
DBL_H(cellAreaKm2)
DBL_H(cellAreaM2)
DBL_H(edgeLengthKm)
DBL_H(edgeLengthM)
void h_greatCircleDistanceKm(void) { LatLng a, b; h3v_dbl = nondet_double(); double r = greatCircleDistanceKm(&a, &b); __CPROVER_assert(0, "canary greatCircleDistanceKm"); }
void h_greatCircleDistanceM(void) { LatLng a, b; h3v_dbl = nondet_double(); double r = greatCircleDistanceM(&a, &b); __CPROVER_assert(0, "canary greatCircleDistanceM"); }
void h_degsToRads(void) { double r = degsToRads(nondet_double()); __CPROVER_assert(0, "canary degsToRads"); }
void h_radsToDegs(void) { double r = radsToDegs(nondet_double()); __CPROVER_assert(0, "canary radsToDegs"); }
void h_gridDiskUnsafe(void) { H3Index origin = nondet_u64(); int k = nondet_int(); H3Index *out; h3v_err = nondet_u32(); h3v_n = nondet_i64(); H3Error e = gridDiskUnsafe(origin, k, out); __CPROVER_assert(0, "canary gridDiskUnsafe"); }

#ifdef LRES
/* bounded stand-in: origin resolution fixed (digit loops then have LRES iterations) */
void h_localIjkToCell_res(void) { H3Index origin = S_SETRES(nondet_u64(), LRES); const CoordIJK *ijk; H3Index *out; H3Error e = localIjkToCell(origin, ijk, out); __CPROVER_assert(0, "canary localIjkToCell res"); }
#endif

void h_h3ToFaceIjk(void) { H3Index h = nondet_u64(); FaceIJK *fijk; H3Error e = _h3ToFaceIjk(h, fijk); __CPROVER_assert(0, "canary _h3ToFaceIjk"); }
void h_cellToLatLng(void) { H3Index h = nondet_u64(); LatLng *g; H3Error e = cellToLatLng(h, g); __CPROVER_assert(0, "canary cellToLatLng"); }
void h_cellToBoundary(void) { H3Index h = nondet_u64(); CellBoundary *cb; H3Error e = cellToBoundary(h, cb); __CPROVER_assert(0, "canary cellToBoundary"); }
#ifdef FRES
/* one job per resolution (the 4-bit field is ASSIGNED, so symex folds the digit shifts and unrolls the digit loop exactly FRES times); the
 * sixteen values are the whole domain of the field */
void h_h3ToFaceIjk_res(void) { H3Index h = S_SETRES(nondet_u64(), FRES); FaceIJK *fijk; H3Error e = _h3ToFaceIjk(h, fijk); __CPROVER_assert(0, "canary _h3ToFaceIjk res"); }
#endif
void h_adjustOverageClassII(void) { FaceIJK f; f.face = nondet_int(); f.coord.i = nondet_int(); f.coord.j = nondet_int(); f.coord.k = nondet_int();
    Overage o = _adjustOverageClassII(&f, nondet_int(), nondet_int(), nondet_int()); __CPROVER_assert(0, "canary _adjustOverageClassII"); }
