#include <stdlib.h>
#include "c17b.contracts.h"
H3Index h3v_w, h3v_w2, h3v_v;
int64_t h3v_g, h3v_n, h3v_live0;
void h_iterStepPolygonCompact(void) {
    IterCellsPolygonCompact it; GeoPolygon poly; LatLng verts[1];
    h3v_live0 = nondet_i64(); __CPROVER_assume(h3v_live0 >= 0 && h3v_live0 < 1000);
    poly.geoloop.numVerts = nondet_int(); poly.geoloop.verts = verts; poly.numHoles = nondet_int(); poly.holes = NULL;
    it.cell = nondet_u64(); it.error = nondet_u32(); it._res = nondet_int(); it._flags = nondet_u32(); it._started = nondet_bool();
    it._polygon = &poly;
    if (nondet_bool()) { it._bboxes = malloc(sizeof(BBox)); __CPROVER_assume(it._bboxes != NULL); h3v_live = h3v_live0 + 1; }
    else { it._bboxes = NULL; h3v_live = h3v_live0; }
    h3v_failed = nondet_bool();
    iterStepPolygonCompact(&it);
    __CPROVER_assert(0, "canary iterStepPolygonCompact");
}
