#include "c04.contracts.h"
H3Index h3v_w, h3v_w2;
int64_t h3v_g;
H3Index h3v_v;

void h_isPentagon(void) {
    H3Index h = nondet_u64();
    int r = isPentagon(h);
    __CPROVER_assert(0, "canary isPentagon");
}
void h_ipow(void) {
    int64_t r = _ipow(nondet_i64(), nondet_i64());
    __CPROVER_assert(0, "canary _ipow");
}
void h_cellToParent(void) {
    H3Index h = nondet_u64();
    int parentRes = nondet_int();
    H3Index *out;
    H3Error e = cellToParent(h, parentRes, out);
    __CPROVER_assert(0, "canary cellToParent");
}
void h_cellToChildrenSize(void) {
    H3Index h = nondet_u64();
    int childRes = nondet_int();
    int64_t *out;
    H3Error e = cellToChildrenSize(h, childRes, out);
    __CPROVER_assert(0, "canary cellToChildrenSize");
}
void h_cellToCenterChild(void) {
    H3Index h = nondet_u64();
    int childRes = nondet_int();
    H3Index *out;
    h3v_w = nondet_u64();
    H3Error e = cellToCenterChild(h, childRes, out);
    __CPROVER_assert(0, "canary cellToCenterChild");
}
void h_iterInitParent(void) {
    H3Index h = nondet_u64();
    int childRes = nondet_int();
    IterCellsChildren *it;
    _iterInitParent(h, childRes, it);
    __CPROVER_assert(0, "canary _iterInitParent");
}
void h_iterStepChild(void) {
    IterCellsChildren it;
    it.h = nondet_u64(); it._parentRes = nondet_int(); it._skipDigit = nondet_int();
    h3v_w = nondet_u64();
    iterStepChild(&it);
    __CPROVER_assert(0, "canary iterStepChild");
}
/* composition: iterStepChild is called BY its bits-contract (enforced on the real code elsewhere); the rank
 * function is an uninterpreted symbol here (-DH3V_ABSTRACT_POSN) about which only the rank lemma, instantiated at
 * the old iterate, is assumed (lemma.rank.* jobs); the full contract's postcondition is asserted. */
void h_iterStepChild_compose(void) {
    IterCellsChildren it;
    it.h = nondet_u64(); it._parentRes = nondet_int(); it._skipDigit = nondet_int();
    __CPROVER_assume(sf_iter_wf(it.h, it._parentRes, it._skipDigit));
    IterCellsChildren old = it;
    if (old.h != 0) {
        s_u64 y = S_NORM(old.h);
        int n = S_RES(old.h) - old._parentRes;
        int pent = S_ANC_IS_PENT(old.h, old._parentRes);
        if (n < 15) y &= ((((s_u64)1) << (3 * n)) - 1);
        __CPROVER_assert(n >= 0 && n <= 15 && sf_legaln(y, n, pent), "lemma instance is legal");
        __CPROVER_assume(sf_posn(y, n, pent) >= 0 && sf_posn(y, n, pent) < sf_countn(n, pent));
        s_u64 ny = sf_nextn(y, n, pent);
        if (ny != S_NONE) __CPROVER_assume(sf_posn(ny, n, pent) == sf_posn(y, n, pent) + 1 &&
                                           sf_posn(ny, n, pent) < sf_countn(n, pent));   /* (c), and (a) at next(y) */
        else __CPROVER_assume(sf_posn(y, n, pent) == sf_countn(n, pent) - 1);            /* (d) */
    }
    iterStepChild(&it);
    __CPROVER_assert(ITERSTEP_ENS_FULL(old.h, old._parentRes, it.h, it._parentRes, it._skipDigit),
                     "full iterStepChild contract follows from the bits contract and the rank lemma");
    __CPROVER_assert(0, "canary iterStepChild compose");
}

void h_cellToChildren(void) {
    H3Index h = nondet_u64();
    int childRes = nondet_int();
    H3Index *children;
    h3v_g = nondet_i64();
    h3v_v = nondet_u64();
    H3Error e = cellToChildren(h, childRes, children);
    __CPROVER_assert(0, "canary cellToChildren");
}

#ifdef PR
/* one complete proof per (parentRes, childRes) pair; the 136 pairs are the whole domain of valid arguments */
void h_cellToChildren_pair(void) {
    H3Index h = S_SETRES(nondet_u64(), PR);
    int childRes = CR;
    H3Index *children;
    h3v_g = nondet_i64();
    h3v_v = nondet_u64();
    H3Error e = cellToChildren(h, childRes, children);
    __CPROVER_assert(0, "canary cellToChildren pair");
}
#endif
