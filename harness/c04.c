#include "c04.contracts.h"
H3Index h3v_w, h3v_w2;

void h_isPentagon(void) {
    H3Index h = nondet_u64();
    int r = isPentagon(h);
    __CPROVER_assert(0, "canary isPentagon");
}
void h_ipow(void) {
    int64_t r = _ipow(nondet_i64(), nondet_i64());
    __CPROVER_assert(0, "canary _ipow");
}
void h_cellToParent(void) {
    H3Index h = nondet_u64();
    int parentRes = nondet_int();
    H3Index *out;
    H3Error e = cellToParent(h, parentRes, out);
    __CPROVER_assert(0, "canary cellToParent");
}
void h_cellToChildrenSize(void) {
    H3Index h = nondet_u64();
    int childRes = nondet_int();
    int64_t *out;
    H3Error e = cellToChildrenSize(h, childRes, out);
    __CPROVER_assert(0, "canary cellToChildrenSize");
}
void h_cellToCenterChild(void) {
    H3Index h = nondet_u64();
    int childRes = nondet_int();
    H3Index *out;
    h3v_w = nondet_u64();
    H3Error e = cellToCenterChild(h, childRes, out);
    __CPROVER_assert(0, "canary cellToCenterChild");
}
void h_iterInitParent(void) {
    H3Index h = nondet_u64();
    int childRes = nondet_int();
    IterCellsChildren *it;
    _iterInitParent(h, childRes, it);
    __CPROVER_assert(0, "canary _iterInitParent");
}
void h_iterStepChild(void) {
    IterCellsChildren it;
    it.h = nondet_u64(); it._parentRes = nondet_int(); it._skipDigit = nondet_int();
    h3v_w = nondet_u64();
    iterStepChild(&it);
    __CPROVER_assert(0, "canary iterStepChild");
}
/* per (parentRes, childRes) pair instance: resolution fields are constants */
#ifdef PR
void h_iterStepChild_pair(void) {
    IterCellsChildren it;
    it.h = S_SETRES(nondet_u64(), CR);
    it._parentRes = PR;
    it._skipDigit = nondet_int();
    iterStepChild(&it);
    __CPROVER_assert(0, "canary iterStepChild pair");
}
#endif
