#include "c03.contracts.h"
H3Index h3v_w, h3v_w2, h3v_v;
int64_t h3v_g;
void h_isBaseCellPentagon(void) { int b = nondet_int(); int r = _isBaseCellPentagon(b); __CPROVER_assert(0, "canary _isBaseCellPentagon"); }
void h_getNumCells(void) { int res = nondet_int(); int64_t *out; H3Error e = getNumCells(res, out); __CPROVER_assert(0, "canary getNumCells"); }
void h_counts(void) { int a = pentagonCount(); int b = res0CellCount(); __CPROVER_assert(0, "canary counts"); }
void h_getRes0Cells(void) { H3Index *out; h3v_g = nondet_i64(); H3Error e = getRes0Cells(out); __CPROVER_assert(0, "canary getRes0Cells"); }
void h_getPentagons(void) { int res = nondet_int(); H3Index *out; h3v_g = nondet_i64(); H3Error e = getPentagons(res, out); __CPROVER_assert(0, "canary getPentagons"); }
/* pure counting lemmas */
void h_lemma_counts(void) {
    int r = nondet_int();
    __CPROVER_assume(r >= 0 && r <= 15);
    /* sum over the 122 base cells of the number of descendants at resolution r: 110 hexagons, 12 pentagons */
    __CPROVER_assert(110 * S_P7C(r) + 12 * S_PENTCOUNT(r) == S_NUMCELLS(r), "sum of descendant counts over the base cells == 2 + 120*7^r");
    int b = nondet_int();
    __CPROVER_assume(b >= 0 && b < 122);
    H3Index base = S_CELL0(0, b);
    __CPROVER_assert(S_VALID_CELL(base) && sf_nchild(base, r) == (S_PENT_BC(b) ? S_PENTCOUNT(r) : S_P7C(r)), "descendant count of base cell b");
    /* every valid cell is a legal descendant of exactly its base cell, and vice versa */
    H3Index x = nondet_u64();
    if (S_VALID_CELL(x)) __CPROVER_assert(sf_wfdesc(x, 0) && sf_same_anc(x, S_CENTER_CHILD(S_CELL0(0, S_BC(x)), S_RES(x)), 0), "valid cell => legal descendant of its base cell");
    if (S_RES(x) == r && sf_wfdesc(x, 0) && sf_same_anc(x, S_CENTER_CHILD(base, r), 0)) __CPROVER_assert(S_VALID_CELL(x) && S_BC(x) == b, "legal descendant of a base cell => valid cell");
    /* a valid pentagon cell is the all-zero-digit cell of a pentagon base cell */
    if (S_VALID_CELL(x) && S_IS_PENT(x)) __CPROVER_assert(x == S_CELL0(S_RES(x), S_BC(x)) && S_PENT_BC(S_BC(x)), "valid pentagon == zero-digit cell of a pentagon base cell");
    /* the twelve pentagon base cells are distinct, increasing, and are all of them */
    int i = nondet_int(), j = nondet_int();
    __CPROVER_assume(0 <= i && i < j && j < 12);
    __CPROVER_assert(S_PENT_I(i) < S_PENT_I(j) && S_PENT_BC(S_PENT_I(i)), "pentagon table strictly increasing, entries are pentagons");
    if (S_PENT_BC(b)) { int k = nondet_int(); __CPROVER_assert(S_PENT_I(0) == b || S_PENT_I(1) == b || S_PENT_I(2) == b || S_PENT_I(3) == b || S_PENT_I(4) == b || S_PENT_I(5) == b ||
                                        S_PENT_I(6) == b || S_PENT_I(7) == b || S_PENT_I(8) == b || S_PENT_I(9) == b || S_PENT_I(10) == b || S_PENT_I(11) == b, "every pentagon base cell is in the table"); }
    __CPROVER_assert(0, "canary lemma counts");
}
void h_uncompactCells(void) {
    const H3Index *cs; int64_t n = nondet_i64(); H3Index *out; int64_t numOut = nondet_i64(); int res = nondet_int();
    h3v_g = nondet_i64();
    H3Error e = uncompactCells(cs, n, out, numOut, res);
    __CPROVER_assert(0, "canary uncompactCells");
}
void h_uncompactCellsSize(void) {
    const H3Index *cs; int64_t n = nondet_i64(); int res = nondet_int(); int64_t *out;
    h3v_g = nondet_i64();
    H3Error e = uncompactCellsSize(cs, n, res, out);
    __CPROVER_assert(0, "canary uncompactCellsSize");
}
