#include "c05.contracts.h"
H3Index h3v_w, h3v_w2, h3v_v, h3v_ring[7];
int64_t h3v_g, h3v_n, h3v_dist;
H3Error h3v_err, h3v_ringerr, h3v_werr;
void h_areNeighborCells(void) {
    H3Index origin = nondet_u64(), destination = nondet_u64(); int *out;
    for (int i = 0; i < 7; i++) h3v_ring[i] = nondet_u64();
    h3v_ringerr = nondet_u32();
    H3Error e = areNeighborCells(origin, destination, out);
    __CPROVER_assert(0, "canary areNeighborCells");
}
void h_gridDisksUnsafe(void) {
    H3Index *set; int length = nondet_int(); int k = nondet_int(); H3Index *out;
    h3v_n = 7; /* segment size of k == 1; a symbolic segment size makes the segment offset a symbolic product (never finishes) */
    h3v_g = nondet_i64(); h3v_w = nondet_u64(); h3v_werr = nondet_u32();
    H3Error e = gridDisksUnsafe(set, length, k, out);
    __CPROVER_assert(0, "canary gridDisksUnsafe");
}
/* ---- bounded: the neighbour graph on ALL valid cells of resolution <= MAXRES (symbolic cell, symbolic direction) */
#ifndef MAXRES
#define MAXRES 1
#endif
static H3Error nbr(H3Index h, int d, H3Index *out) { int rot = 0; return h3NeighborRotations(h, (Direction)d, &rot, out); }
void h_neighbor_closure(void) {
    H3Index h = nondet_u64(); int d = nondet_int();
    __CPROVER_assume(S_VALID_CELL(h) && S_RES(h) <= MAXRES && d >= 1 && d <= 6);
    H3Index n = 0;
    H3Error e = nbr(h, d, &n);
    /* the step is total on valid cells: success, or E_PENTAGON exactly for the deleted direction of a pentagon */
    __CPROVER_assert(e == 0 || e == S_ERR_PENTAGON, "neighbour step: E_SUCCESS or E_PENTAGON");
    /* the deleted K direction of a pentagon: E_PENTAGON, or (at resolution 0) the IK neighbour once more; every other step succeeds */
    __CPROVER_assert((e == S_ERR_PENTAGON) ==> (S_IS_PENT(h) && d == 1), "E_PENTAGON only for (pentagon, K direction)");
    __CPROVER_assert(!(S_IS_PENT(h) && d == 1) ==> e == 0, "every step other than (pentagon, K) succeeds");
    if (e == 0) {
        __CPROVER_assert(S_VALID_CELL(n) && S_RES(n) == S_RES(h) && n != h, "neighbour is a valid cell of the same resolution, different from the origin");
        /* symmetry: some direction leads back */
        H3Index b1 = 0, b2 = 0, b3 = 0, b4 = 0, b5 = 0, b6 = 0;
        int back = (nbr(n, 1, &b1) == 0 && b1 == h) || (nbr(n, 2, &b2) == 0 && b2 == h) || (nbr(n, 3, &b3) == 0 && b3 == h) ||
                   (nbr(n, 4, &b4) == 0 && b4 == h) || (nbr(n, 5, &b5) == 0 && b5 == h) || (nbr(n, 6, &b6) == 0 && b6 == h);
        __CPROVER_assert(back, "adjacency is symmetric: the neighbour has a direction leading back to the origin");
        /* distinctness: two different directions give two different neighbours */
        int d2 = nondet_int(); __CPROVER_assume(d2 >= 1 && d2 <= 6 && d2 != d);
        __CPROVER_assume(!(S_IS_PENT(h) && (d == 1 || d2 == 1)));   /* a pentagon has five neighbours: its K direction is not one of them */
        H3Index n2 = 0; H3Error e2 = nbr(h, d2, &n2);
        if (e2 == 0) __CPROVER_assert(n2 != n, "distinct directions give distinct neighbours");
    }
    __CPROVER_assert(0, "canary neighbor closure");
}
