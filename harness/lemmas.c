/* Pure spec lemmas (no library code): machine-checked facts about the spec vocabulary that the
 * contracts rely on.  Each job is a complete proof over its whole symbolic domain.
 *
 * RANK LEMMA, by induction over the number L of digit levels (one instance per L = 1..15 plus base):
 *   claim(L): for all legal L-digit strings y, z and both contexts (below a pentagon or not)
 *     (a) 0 <= pos(y) < count(L)          (b) pos(0..0) == 0
 *     (c) next(y) exists  ==> next(y) legal and pos(next(y)) == pos(y) + 1
 *     (d) next(y) missing ==> pos(y) == count(L) - 1
 *     (e) y < z ==> pos(y) < pos(z)
 *   h_lemma_unfold  (concrete): pos_L(y) == SF_POS_UNFOLD(top, pos_{L-1}(low digits)), count likewise
 *   h_lemma_step    (abstract): with pos_{L-1} replaced by an UNINTERPRETED function U of which only
 *                    claim(L-1), instantiated at the low digits of y and z, is assumed, claim(L)
 *                    holds for SF_POS_UNFOLD(top, U(low digits)).
 *   Induction on L (on paper: 'claim(0) and for all L claim(L-1) ==> claim(L)' gives claim(L) for L <= 15). */
#include "common.h"
H3Index h3v_w, h3v_w2;
#define M45 ((((s_u64)1) << 45) - 1)

void h_lemma_base(void) {
    s_u64 y = nondet_u64() & M45;
    int pent = nondet_bool();
    __CPROVER_assert(sf_legaln(y, 0, pent), "the empty string is legal");
    __CPROVER_assert(sf_nextn(y, 0, pent) == S_NONE, "L = 0: no next");
    __CPROVER_assert(sf_posn(y, 0, pent) == 0 && sf_countn(0, pent) == 1, "L = 0: pos 0 of 1");
    __CPROVER_assert(0, "canary lemma base");
}

#ifdef LEVEL
#define LOWMASK ((((s_u64)1) << (3 * (LEVEL - 1))) - 1)
#define TOPD(y) ((int64_t)(((y) >> (3 * (LEVEL - 1))) & 7))
#define WL ((int64_t)S_P7C(LEVEL - 1))
#define PCWL ((int64_t)S_PENTCOUNT(LEVEL - 1))

void h_lemma_unfold(void) {
    s_u64 y = nondet_u64() & M45;
    int pent = nondet_bool();
    __CPROVER_assume(sf_legaln(y, LEVEL, pent));
    int64_t top = TOPD(y);
    int ctx = pent && top == 0;
    __CPROVER_assert(sf_legaln(y & LOWMASK, LEVEL - 1, ctx), "legal(L) implies legal(L-1) of the low digits in the context of the top digit");
    __CPROVER_assert(sf_posn(y, LEVEL, pent) == SF_POS_UNFOLD(top, WL, PCWL, pent, sf_posn(y & LOWMASK, LEVEL - 1, ctx)),
                     "pos_L unfolds along the top digit");
    __CPROVER_assert(sf_countn(LEVEL, pent) == (pent ? sf_countn(LEVEL - 1, 1) + 5 * WL : 7 * WL) &&
                     sf_countn(LEVEL - 1, 0) == WL && sf_countn(LEVEL - 1, 1) == PCWL, "count_L unfolds");
    __CPROVER_assert(0, "canary lemma unfold");
}

int64_t __CPROVER_uninterpreted_posrest(s_u64 ylow, int ctx);
#define U(ylow, ctx) __CPROVER_uninterpreted_posrest((ylow), (ctx) != 0)
static int64_t pos_abs(s_u64 y, int pent) {
    int64_t top = TOPD(y);
    int ctx = pent && top == 0;
    return SF_POS_UNFOLD(top, WL, PCWL, pent, U(y & LOWMASK, ctx));
}
/* claim(L-1) instantiated at one string r (already known legal in ctx) */
static void assume_ih(s_u64 r, int ctx) {
    int64_t cnt = ctx ? PCWL : WL;
    __CPROVER_assume(U(r, ctx) >= 0 && U(r, ctx) < cnt);            /* (a) */
    __CPROVER_assume(U(0, ctx) == 0);                                /* (b) */
    s_u64 nr = sf_nextn(r, LEVEL - 1, ctx);
    if (nr != S_NONE) __CPROVER_assume(U(nr & LOWMASK, ctx) == U(r, ctx) + 1);   /* (c) */
    else __CPROVER_assume(U(r, ctx) == cnt - 1);                     /* (d) */
}
void h_lemma_step(void) {
    s_u64 y = nondet_u64() & M45, z = nondet_u64() & M45;
    int pent = nondet_bool();
    y &= (LEVEL >= 15 ? M45 : ((((s_u64)1) << (3 * LEVEL)) - 1));
    z &= (LEVEL >= 15 ? M45 : ((((s_u64)1) << (3 * LEVEL)) - 1));
    __CPROVER_assume(sf_legaln(y, LEVEL, pent) && sf_legaln(z, LEVEL, pent));
    int cy = pent && TOPD(y) == 0, cz = pent && TOPD(z) == 0;
    s_u64 ry = y & LOWMASK, rz = z & LOWMASK;
    assume_ih(ry, cy);
    assume_ih(rz, cz);
    __CPROVER_assume(U(0, 0) == 0 && U(0, 1) == 0);
    if (cy == cz && ry < rz) __CPROVER_assume(U(ry, cy) < U(rz, cz));    /* (e) */
    int64_t cnt = pent ? PCWL + 5 * WL : 7 * WL;
    int64_t py = pos_abs(y, pent), pz = pos_abs(z, pent);
    __CPROVER_assert(py >= 0 && py < cnt, "(a) 0 <= pos(y) < count");
    __CPROVER_assert(pos_abs(0, pent) == 0, "(b) pos(0) == 0");
    s_u64 ny = sf_nextn(y, LEVEL, pent);
    if (ny != S_NONE) {
        __CPROVER_assert(sf_legaln(ny, LEVEL, pent) && ny > y, "(c) next is legal and larger");
        __CPROVER_assert(pos_abs(ny, pent) == py + 1, "(c) pos(next(y)) == pos(y) + 1");
    } else {
        __CPROVER_assert(py == cnt - 1, "(d) no next: pos(y) == count - 1");
    }
    if (y < z) __CPROVER_assert(py < pz, "(e) y < z ==> pos(y) < pos(z)");
    __CPROVER_assert(0, "canary lemma step");
}
#endif
