#include "c19.contracts.h"
H3Index h3v_w, h3v_w2, h3v_v;
int64_t h3v_g, h3v_g2, h3v_n, h3v_dist;
H3Error h3v_err;
int h3v_adj_calls, h3v_wf;
_Bool h3v_seen;
void h_getIcosahedronFaces(void) {
    H3Index h3 = nondet_u64(); int *out;
    h3v_g = nondet_i64(); h3v_g2 = nondet_i64(); h3v_wf = nondet_int();
    H3Error e = getIcosahedronFaces(h3, out);
    __CPROVER_assert(0, "canary getIcosahedronFaces");
}
/* exhaustive over the finite set of pentagons (12 base cells x 16 resolutions, symbolic): the REAL function with all its real callees */
void h_pentagon_faces(void) {
    int p = nondet_int(), res = nondet_int();
    __CPROVER_assume(0 <= p && p < 12 && 0 <= res && res <= 15);
    H3Index h = S_CELL0(res, S_PENT_I(p));
    int out[5] = {-7, -7, -7, -7, -7};
    H3Error e = getIcosahedronFaces(h, out);
    __CPROVER_assert(e == 0, "getIcosahedronFaces succeeds on every pentagon");
    __CPROVER_assert(out[0] >= 0 && out[0] <= 19 && out[1] >= 0 && out[1] <= 19 && out[2] >= 0 && out[2] <= 19 && out[3] >= 0 && out[3] <= 19 &&
                     out[4] >= 0 && out[4] <= 19, "a pentagon reports five face numbers in 0..19");
    __CPROVER_assert(out[0] != out[1] && out[0] != out[2] && out[0] != out[3] && out[0] != out[4] && out[1] != out[2] && out[1] != out[3] &&
                     out[1] != out[4] && out[2] != out[3] && out[2] != out[4] && out[3] != out[4], "the five faces of a pentagon are distinct");
    __CPROVER_assert(0, "canary pentagon faces");
}

/* the same clause by COMPLETE ENUMERATION: all 12 x 16 pentagons, concrete inputs (symbolic execution folds every branch), real function
 * with all its real callees */
void h_pentagon_faces_enum(void) {
    for (int p = 0; p < 12; p++) {
        for (int res = 0; res <= 15; res++) {
            H3Index h = S_CELL0(res, S_PENT_I(p));
            int out[5] = {-7, -7, -7, -7, -7};
            H3Error e = getIcosahedronFaces(h, out);
            __CPROVER_assert(e == 0, "getIcosahedronFaces succeeds on every pentagon");
            int ok = 1;
            for (int i = 0; i < 5; i++) { if (out[i] < 0 || out[i] > 19) ok = 0; for (int j = 0; j < i; j++) if (out[i] == out[j]) ok = 0; }
            __CPROVER_assert(ok, "a pentagon reports five distinct faces in 0..19");
        }
    }
    __CPROVER_assert(0, "canary pentagon faces enum");
}

/* one pentagon per job (base cell index and resolution are compile-time constants): the REAL function with all its real callees on a concrete
 * input; 12 x 16 jobs are the whole set of pentagons, so the family is a complete enumeration, not a bound */
#ifdef PENT_P
void h_pentagon_faces_one(void) {
    H3Index h = S_CELL0(PENT_R, S_PENT_I(PENT_P));
    int out[5] = {-7, -7, -7, -7, -7};
    H3Error e = getIcosahedronFaces(h, out);
    __CPROVER_assert(e == 0, "getIcosahedronFaces succeeds on every pentagon");
    __CPROVER_assert(out[0] >= 0 && out[0] <= 19 && out[1] >= 0 && out[1] <= 19 && out[2] >= 0 && out[2] <= 19 && out[3] >= 0 && out[3] <= 19 &&
                     out[4] >= 0 && out[4] <= 19, "a pentagon reports five face numbers in 0..19");
    __CPROVER_assert(out[0] != out[1] && out[0] != out[2] && out[0] != out[3] && out[0] != out[4] && out[1] != out[2] && out[1] != out[3] &&
                     out[1] != out[4] && out[2] != out[3] && out[2] != out[4] && out[3] != out[4], "the five faces of a pentagon are distinct");
    __CPROVER_assert(sf_face_ring5(out), "the five faces of a pentagon are the ring of faces around one icosahedron vertex");
    __CPROVER_assert(0, "canary pentagon faces one");
}
#endif
