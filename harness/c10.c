#include "c10.contracts.h"
H3Index h3v_w, h3v_w2, h3v_v;
int64_t h3v_g;
int h3v_d;
void h_isValidDirectedEdge(void) { H3Index edge = nondet_u64(); int r = isValidDirectedEdge(edge); __CPROVER_assert(0, "canary isValidDirectedEdge"); }
void h_getDirectedEdgeOrigin(void) { H3Index *out; H3Index edge = nondet_u64(); H3Error e = getDirectedEdgeOrigin(edge, out); __CPROVER_assert(0, "canary getDirectedEdgeOrigin"); }
void h_getDirectedEdgeDestination(void) { H3Index *out; H3Error e = getDirectedEdgeDestination(nondet_u64(), out); __CPROVER_assert(0, "canary getDirectedEdgeDestination"); }
void h_directedEdgeToCells(void) { H3Index *out; H3Error e = directedEdgeToCells(nondet_u64(), out); __CPROVER_assert(0, "canary directedEdgeToCells"); }
void h_originToDirectedEdges(void) { H3Index *out; h3v_g = nondet_i64(); H3Index origin = nondet_u64(); H3Error e = originToDirectedEdges(origin, out); __CPROVER_assert(0, "canary originToDirectedEdges"); }
void h_cellsToDirectedEdge(void) { H3Index *out; h3v_d = nondet_int(); H3Index origin = nondet_u64(), destination = nondet_u64(); H3Error e = cellsToDirectedEdge(origin, destination, out); __CPROVER_assert(0, "canary cellsToDirectedEdge"); }
/* composition (all four by contract): for a valid cell a and any b, a successful cellsToDirectedEdge(a, b) yields a valid
 * edge that decodes back to (a, b) */
void h_edge_roundtrip(void) {
    H3Index a = nondet_u64(), b = nondet_u64(), e = nondet_u64(), o = nondet_u64(), d = nondet_u64();
    __CPROVER_assume(S_VALID_CELL(a));
    H3Error r = cellsToDirectedEdge(a, b, &e);
    if (r == 0) {
        __CPROVER_assert(isValidDirectedEdge(e) == 1, "edge produced for a valid origin is a valid directed edge");
        H3Error r1 = getDirectedEdgeOrigin(e, &o);
        H3Error r2 = getDirectedEdgeDestination(e, &d);
        __CPROVER_assert(r1 == 0 && o == a, "origin decodes back");
        __CPROVER_assert(r2 == 0 && d == b, "destination decodes back");
    }
    __CPROVER_assert(0, "canary edge roundtrip");
}
