#include "c11.contracts.h"
H3Index h3v_w, h3v_w2, h3v_v;
int64_t h3v_g;
int h3v_d;
void h_isValidVertex(void) { H3Index vertex = nondet_u64(); int r = isValidVertex(vertex); __CPROVER_assert(0, "canary isValidVertex"); }
void h_cellToVertexes(void) { H3Index cell = nondet_u64(); H3Index *out; h3v_g = nondet_i64(); H3Error e = cellToVertexes(cell, out); __CPROVER_assert(0, "canary cellToVertexes"); }
void h_cellToVertex(void) { H3Index cell = nondet_u64(); int vertexNum = nondet_int(); H3Index *out; H3Error e = cellToVertex(cell, vertexNum, out); __CPROVER_assert(0, "canary cellToVertex"); }
