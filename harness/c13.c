#include "c13.contracts.h"
H3Index h3v_w, h3v_w2, h3v_v;
int64_t h3v_g;
#ifndef PR
void h_cellToChildPos(void) {
    H3Index child = nondet_u64();
    int parentRes = nondet_int();
    int64_t *out;
    H3Error e = cellToChildPos(child, parentRes, out);
    __CPROVER_assert(0, "canary cellToChildPos");
}
void h_childPosToCell(void) {
    int64_t pos = nondet_i64();
    H3Index parent = nondet_u64();
    int childRes = nondet_int();
    H3Index *child;
    H3Error e = childPosToCell(pos, parent, childRes, child);
    __CPROVER_assert(0, "canary childPosToCell");
}
#else
void h_cellToChildPos(void) {
    H3Index child = S_SETRES(nondet_u64(), CR);
    int parentRes = PR;
    int64_t *out;
    H3Error e = cellToChildPos(child, parentRes, out);
    __CPROVER_assert(0, "canary cellToChildPos");
}
void h_childPosToCell(void) {
    int64_t pos = nondet_i64();
    H3Index parent = S_SETRES(nondet_u64(), PR);
    int childRes = CR;
    H3Index *child;
    H3Error e = childPosToCell(pos, parent, childRes, child);
    __CPROVER_assert(0, "canary childPosToCell");
}
#endif
