#include "c01.contracts.h"
void h_isValidCell(void) {
    H3Index h = nondet_u64();
    int r = isValidCell(h);
    __CPROVER_assert(0, "canary isValidCell");
}
