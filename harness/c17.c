#include "c17.contracts.h"
H3Index h3v_w, h3v_w2, h3v_v;
int64_t h3v_g, h3v_n;

void h_gridDiskDistances(void) {
    H3Index origin = nondet_u64();
    int k = nondet_int();
    H3Index *out; int *distances;
    h3v_n = nondet_i64();
    H3Error e = gridDiskDistances(origin, k, out, distances);
    __CPROVER_assert(0, "canary gridDiskDistances");
}
void h_gridDisk(void) {
    H3Index origin = nondet_u64();
    int k = nondet_int();
    H3Index *out;
    h3v_n = nondet_i64();
    H3Error e = gridDisk(origin, k, out);
    __CPROVER_assert(0, "canary gridDisk");
}
/* the k == 1 view of gridDisk used by areNeighborCells / polygonToCells follows from the general contract with h3v_n == 7 */
void h_gridDisk_k1(void) {
    H3Index origin = nondet_u64();
    H3Index ring[7];
    h3v_n = 7;
    H3Error e = gridDisk(origin, 1, ring);
    __CPROVER_assert(0, "canary gridDisk k1");
}
void h_areNeighborCells(void) {
    H3Index a = nondet_u64(), b = nondet_u64();
    int *out;
    H3Error e = areNeighborCells(a, b, out);
    __CPROVER_assert(0, "canary areNeighborCells");
}
