#include <stdlib.h>
#include "c17.contracts.h"
H3Index h3v_w, h3v_w2, h3v_v;
int64_t h3v_g, h3v_n, h3v_live0;

void h_gridDiskDistances(void) {
    H3Index origin = nondet_u64();
    int k = nondet_int();
    H3Index *out; int *distances;
    h3v_n = nondet_i64();
    H3Error e = gridDiskDistances(origin, k, out, distances);
    __CPROVER_assert(0, "canary gridDiskDistances");
}
void h_gridDisk(void) {
    H3Index origin = nondet_u64();
    int k = nondet_int();
    H3Index *out;
    h3v_n = nondet_i64();
    H3Error e = gridDisk(origin, k, out);
    __CPROVER_assert(0, "canary gridDisk");
}
/* the k == 1 view of gridDisk used by areNeighborCells / polygonToCells follows from the general contract with h3v_n == 7 */
void h_gridDisk_k1(void) {
    H3Index origin = nondet_u64();
    H3Index ring[7];
    h3v_n = 7;
    H3Error e = gridDisk(origin, 1, ring);
    __CPROVER_assert(0, "canary gridDisk k1");
}
void h_areNeighborCells(void) {
    H3Index a = nondet_u64(), b = nondet_u64();
    int *out;
    H3Error e = areNeighborCells(a, b, out);
    __CPROVER_assert(0, "canary areNeighborCells");
}

void h_polygonToCellsExperimental(void) {
    const GeoPolygon *polygon; int res = nondet_int(); uint32_t flags = nondet_u32(); int64_t size = nondet_i64(); H3Index *out;
    H3Error e = polygonToCellsExperimental(polygon, res, flags, size, out);
    __CPROVER_assert(0, "canary polygonToCellsExperimental");
}
void h_maxPolygonToCellsSizeExperimental(void) {
    const GeoPolygon *polygon; int res = nondet_int(); uint32_t flags = nondet_u32(); int64_t *out;
    H3Error e = maxPolygonToCellsSizeExperimental(polygon, res, flags, out);
    __CPROVER_assert(0, "canary maxPolygonToCellsSizeExperimental");
}

/* ---- enforcing the iterator contracts themselves */
static void mk_compact(IterCellsPolygonCompact *it) {
    it->cell = nondet_u64(); it->error = nondet_u32(); it->_res = nondet_int(); it->_flags = nondet_u32();
    it->_started = nondet_bool();
    if (nondet_bool()) { it->_bboxes = malloc(sizeof(BBox)); __CPROVER_assume(it->_bboxes != NULL); h3v_live = h3v_live0 + 1; }
    else { it->_bboxes = NULL; h3v_live = h3v_live0; }
}
void h_iterDestroyPolygonCompact(void) {
    IterCellsPolygonCompact it; h3v_live0 = nondet_i64(); __CPROVER_assume(h3v_live0 >= 0 && h3v_live0 < 1000);
    mk_compact(&it);
    iterDestroyPolygonCompact(&it);
    __CPROVER_assert(0, "canary iterDestroyPolygonCompact");
}
void h_iterDestroyPolygon(void) {
    IterCellsPolygon it; h3v_live0 = nondet_i64(); __CPROVER_assume(h3v_live0 >= 0 && h3v_live0 < 1000);
    it.cell = nondet_u64(); it.error = nondet_u32();
    mk_compact(&it._cellIter);
    iterDestroyPolygon(&it);
    __CPROVER_assert(0, "canary iterDestroyPolygon");
}
void h_iterStepPolygon(void) {
    IterCellsPolygon it; h3v_live0 = nondet_i64(); __CPROVER_assume(h3v_live0 >= 0 && h3v_live0 < 1000);
    it.cell = nondet_u64(); it.error = nondet_u32();
    it._childIter.h = nondet_u64(); it._childIter._parentRes = nondet_int(); it._childIter._skipDigit = nondet_int();
    mk_compact(&it._cellIter);
    h3v_failed = nondet_bool();
    iterStepPolygon(&it);
    __CPROVER_assert(0, "canary iterStepPolygon");
}
void h_iterInitPolygon(void) {
    const GeoPolygon *polygon; int res = nondet_int(); uint32_t flags = nondet_u32();
    IterCellsPolygon it = iterInitPolygon(polygon, res, flags);
    __CPROVER_assert(0, "canary iterInitPolygon");
}

void h_iterInitParent_frame(void) {
    IterCellsChildren it;
    _iterInitParent(nondet_u64(), nondet_int(), &it);
    __CPROVER_assert(0, "canary _iterInitParent frame");
}

void h_validatePolygonFlags(void) { uint32_t flags = nondet_u32(); H3Error e = validatePolygonFlags(flags); __CPROVER_assert(0, "canary validatePolygonFlags"); }
void h_polygonToCells_badflags(void) {
    const GeoPolygon *p; int res = nondet_int(); uint32_t flags = nondet_u32(); H3Index *out;
    H3Error e = polygonToCells(p, res, flags, out);
    __CPROVER_assert(0, "canary polygonToCells badflags");
}
void h_maxPolygonToCellsSize_badflags(void) {
    const GeoPolygon *p; int res = nondet_int(); uint32_t flags = nondet_u32(); int64_t *out;
    H3Error e = maxPolygonToCellsSize(p, res, flags, out);
    __CPROVER_assert(0, "canary maxPolygonToCellsSize badflags");
}
void h_polygonToCells(void) {
    const GeoPolygon *p; int res = nondet_int(); uint32_t flags = nondet_u32(); H3Index *out;
    h3v_n = nondet_i64();
    H3Error e = polygonToCells(p, res, flags, out);
    __CPROVER_assert(0, "canary polygonToCells");
}

void h_compactCells(void) {
    const H3Index *set; H3Index *out; int64_t n = nondet_i64();
    H3Error e = compactCells(set, out, n);
    __CPROVER_assert(0, "canary compactCells");
}
