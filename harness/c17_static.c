/* Enforcing contracts of file-static functions of polyfill.c: the translation unit is the REAL polyfill.c, included
 * textually (its object file is left out of the link for these jobs), so the statics are in scope. */
#include <stdlib.h>
#include H3V_POLYFILL_C
#include "c17.contracts.h"
H3Index h3v_w, h3v_w2, h3v_v;
int64_t h3v_g, h3v_n, h3v_live0;
void h_iterInitPolygonCompact(void) {
    const GeoPolygon *polygon; int res = nondet_int(); uint32_t flags = nondet_u32();
    IterCellsPolygonCompact it = _iterInitPolygonCompact(polygon, res, flags);
    __CPROVER_assert(0, "canary _iterInitPolygonCompact");
}
