#include "c20.contracts.h"
const char *h3v_fmt_dst; uint64_t h3v_fmt_val; int h3v_fmt_calls, h3v_scan_calls, h3v_scan_ret; uint64_t h3v_scan_val;

void h_h3ToString(void) {
    H3Index h = nondet_u64();
    size_t sz = nondet_size();
    char *str;
    H3Error e = h3ToString(h, str, sz);
    __CPROVER_assert(0, "canary h3ToString");
}
void h_stringToH3(void) {
    const char *str;
    H3Index *out;
    H3Error e = stringToH3(str, out);
    __CPROVER_assert(0, "canary stringToH3");
}
/* composition, machine-checked relative to the assumed libc contracts: both library functions
 * are called BY CONTRACT here; their contracts are enforced in the two jobs above. */
void h_roundtrip(void) {
    H3Index h = nondet_u64();
    char buf[17];
    H3Index back = nondet_u64();
    h3v_fmt_calls = 0;
    h3v_scan_calls = 0;
    H3Error e1 = h3ToString(h, buf, sizeof buf);
    H3Error e2 = stringToH3(buf, &back);
    __CPROVER_assert(e1 == 0 && e2 == 0 && back == h, "stringToH3(h3ToString(h)) == h");
    __CPROVER_assert(0, "canary roundtrip");
}
