#include "c20.contracts.h"
H3Index h3v_w, h3v_w2, h3v_v;
void h_h3ToString(void) {
    H3Index h = nondet_u64();
    size_t sz = nondet_size();
    char *str;
    H3Error e = h3ToString(h, str, sz);
    __CPROVER_assert(0, "canary h3ToString");
}
void h_stringToH3(void) {
    const char *str;
    H3Index *out;
    h3v_w = nondet_u64();
    H3Error e = stringToH3(str, out);
    __CPROVER_assert(0, "canary stringToH3");
}
/* composition: both library functions are called BY CONTRACT here (enforced in the two jobs above) */
void h_roundtrip(void) {
    H3Index h = nondet_u64();
    char buf[17];
    H3Index back = nondet_u64();
    h3v_w = h;
    H3Error e1 = h3ToString(h, buf, sizeof buf);
    H3Error e2 = stringToH3(buf, &back);
    __CPROVER_assert(e1 == 0 && e2 == 0 && back == h, "stringToH3(h3ToString(h)) == h");
    __CPROVER_assert(0, "canary roundtrip");
}
