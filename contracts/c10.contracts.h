/* C10: directed edges encode exactly the neighbour pairs (index algebra; neighbour decoding by an uninterpreted step). */
#ifndef H3V_C10_CONTRACTS_H
#define H3V_C10_CONTRACTS_H
#include "c04.contracts.h"
#include "algos.h"
#include "coordijk.h"
int isValidCell_contract(H3Index h)
__CPROVER_requires(1)
__CPROVER_assigns()
__CPROVER_ensures(__CPROVER_return_value == 0 || __CPROVER_return_value == 1)
__CPROVER_ensures((__CPROVER_return_value != 0) == (S_VALID_CELL(h)));

/* The neighbour step as a deterministic but otherwise unknown function of (origin, direction) when entered with
 * *rotations == 0: error code UE(origin, dir), neighbour UN(origin, dir).  (Its real behaviour: C05.) */
H3Error __CPROVER_uninterpreted_nbr_err(H3Index origin, int dir);
H3Index __CPROVER_uninterpreted_nbr(H3Index origin, int dir);
#define UE(o, d) __CPROVER_uninterpreted_nbr_err(o, (int)(d))
#define UN(o, d) __CPROVER_uninterpreted_nbr(o, (int)(d))
H3Error h3NeighborRotations_uf(H3Index origin, Direction dir, int *rotations, H3Index *out)
__CPROVER_requires(__CPROVER_rw_ok(rotations, sizeof(int)) && __CPROVER_rw_ok(out, sizeof(H3Index)))
__CPROVER_assigns(*rotations, *out)
__CPROVER_ensures(__CPROVER_return_value <= 15)
/* ASSUMED range of the rotation count (real code: sum of at most three table entries 0..5 plus 2) */
__CPROVER_ensures(__CPROVER_old(*rotations) == 0 ==> (*rotations >= 0 && *rotations <= 32))
__CPROVER_ensures(__CPROVER_old(*rotations) == 0 ==>
                  (__CPROVER_return_value == UE(origin, dir) && (__CPROVER_return_value == 0 ==> *out == UN(origin, dir))));

int isValidDirectedEdge_contract(H3Index edge)
__CPROVER_requires(1)
__CPROVER_assigns()
__CPROVER_ensures(__CPROVER_return_value == (S_VALID_EDGE(edge) ? 1 : 0));

H3Error getDirectedEdgeOrigin_contract(H3Index edge, H3Index *out)
__CPROVER_requires(__CPROVER_is_fresh(out, sizeof(H3Index)))
__CPROVER_assigns(*out)
__CPROVER_ensures(S_MODE(edge) != 2 ==> (__CPROVER_return_value == S_ERR_DIR_EDGE_INVALID && *out == __CPROVER_old(*out)))
__CPROVER_ensures(S_MODE(edge) == 2 ==> (__CPROVER_return_value == S_ERR_SUCCESS && *out == S_EDGE_ORIGIN(edge)))
__CPROVER_ensures(S_VALID_EDGE(edge) ==> S_VALID_CELL(*out));

H3Error getDirectedEdgeDestination_contract(H3Index edge, H3Index *out)
__CPROVER_requires(__CPROVER_is_fresh(out, sizeof(H3Index)))
__CPROVER_assigns(*out)
__CPROVER_ensures(S_MODE(edge) != 2 ==> (__CPROVER_return_value == S_ERR_DIR_EDGE_INVALID && *out == __CPROVER_old(*out)))
__CPROVER_ensures(S_MODE(edge) == 2 ==> (__CPROVER_return_value == UE(S_EDGE_ORIGIN(edge), S_RSV(edge)) &&
                                         (__CPROVER_return_value == 0 ==> *out == UN(S_EDGE_ORIGIN(edge), S_RSV(edge)))));

/* h3v_g: universally quantified slot index */
H3Error originToDirectedEdges_contract(H3Index origin, H3Index *edges)
__CPROVER_requires(__CPROVER_is_fresh(edges, 6 * sizeof(H3Index)))
__CPROVER_assigns(__CPROVER_object_whole(edges))
__CPROVER_ensures(__CPROVER_return_value == S_ERR_SUCCESS)
__CPROVER_ensures((0 <= h3v_g && h3v_g < 6) ==>
                  edges[h3v_g] == ((S_IS_PENT(origin) && h3v_g == 0) ? (H3Index)0 : (H3Index)S_MK_EDGE(origin, h3v_g + 1)))
__CPROVER_ensures((0 <= h3v_g && h3v_g < 6 && S_VALID_CELL(origin) && edges[h3v_g] != 0) ==> S_VALID_EDGE(edges[h3v_g]));

/* h3v_d: universally quantified direction */
extern int h3v_d;
#define C10_DIR_OK(o, d) ((d) >= 1 && (d) <= 6 && !(S_IS_PENT(o) && (d) == 1))
H3Error cellsToDirectedEdge_contract(H3Index origin, H3Index destination, H3Index *out)
__CPROVER_requires(__CPROVER_is_fresh(out, sizeof(H3Index)))
__CPROVER_assigns(*out)
__CPROVER_ensures(__CPROVER_return_value == S_ERR_SUCCESS || __CPROVER_return_value == S_ERR_NOT_NEIGHBORS)
/* success: the edge is origin with mode 2 and a direction d in which the step from origin yields the destination */
__CPROVER_ensures(__CPROVER_return_value == S_ERR_SUCCESS ==>
                  (*out == S_MK_EDGE(origin, S_RSV(*out)) && C10_DIR_OK(origin, S_RSV(*out)) &&
                   UE(origin, S_RSV(*out)) == 0 && UN(origin, S_RSV(*out)) == destination))
/* E_NOT_NEIGHBORS: no admissible direction leads to the destination; nothing is written */
__CPROVER_ensures(__CPROVER_return_value == S_ERR_NOT_NEIGHBORS ==>
                  (*out == __CPROVER_old(*out) &&
                   (C10_DIR_OK(origin, h3v_d) ==> !(UE(origin, h3v_d) == 0 && UN(origin, h3v_d) == destination))));

H3Error directedEdgeToCells_contract(H3Index edge, H3Index *od)
__CPROVER_requires(__CPROVER_is_fresh(od, 2 * sizeof(H3Index)))
__CPROVER_assigns(__CPROVER_object_whole(od))
__CPROVER_ensures(S_MODE(edge) != 2 ==> __CPROVER_return_value == S_ERR_DIR_EDGE_INVALID)
__CPROVER_ensures(S_MODE(edge) == 2 ==> (__CPROVER_return_value == UE(S_EDGE_ORIGIN(edge), S_RSV(edge)) &&
                  (__CPROVER_return_value == 0 ==> (od[0] == S_EDGE_ORIGIN(edge) && od[1] == UN(S_EDGE_ORIGIN(edge), S_RSV(edge))))));
#endif
