/* C01: isValidCell is exactly the documented layout, for all 2^64 values. */
#include "common.h"
int isValidCell_contract(H3Index h)
__CPROVER_requires(1)
__CPROVER_assigns()
__CPROVER_ensures(__CPROVER_return_value == 0 || __CPROVER_return_value == 1)
__CPROVER_ensures((__CPROVER_return_value != 0) == (S_VALID_CELL(h)));
