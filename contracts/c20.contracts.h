/* C20: string round trip, stated on the BUFFER CONTENTS (so any correct formatter/parser satisfies it, libc-based or not).
 * Library half proved; the behaviour of libc's sprintf/sscanf for "%lx" (h3v_sprintf_lx / h3v_sscanf_lx) is ASSUMED. */
#include "common.h"
#include "pre_libc.h"

/* ASSUMED: sprintf(dst, "%lx", v) writes the lowercase unpadded hex of v (1..16 digits + NUL) and returns the digit count */
int h3v_sprintf_lx_contract(char *dst, const char *fmt, uint64_t v)
__CPROVER_requires(__CPROVER_r_ok(fmt, 4) && fmt[0] == '%' && fmt[1] == 'l' && fmt[2] == 'x' && fmt[3] == 0)
__CPROVER_requires(__CPROVER_w_ok(dst, 17))
__CPROVER_assigns(__CPROVER_object_upto(dst, 17))
__CPROVER_ensures(__CPROVER_return_value == S_HEXLEN(v) && S_STR_IS_HEX(dst, v));

/* ASSUMED: sscanf(src, "%lx", out): parses text that is the hex form of a value w (h3v_w: universally quantified) to w and
 * returns 1; returns 0 or EOF when the text cannot start a hexadecimal number; stores nothing unless it returns 1 */
int h3v_sscanf_lx_contract(const char *src, const char *fmt, uint64_t *out)
__CPROVER_requires(__CPROVER_r_ok(fmt, 4) && fmt[0] == '%' && fmt[1] == 'l' && fmt[2] == 'x' && fmt[3] == 0)
__CPROVER_requires(__CPROVER_r_ok(src, 17) && __CPROVER_w_ok(out, 8))
__CPROVER_assigns(*out)
__CPROVER_ensures(__CPROVER_return_value == 1 || __CPROVER_return_value == 0 || __CPROVER_return_value == -1)
__CPROVER_ensures(__CPROVER_return_value != 1 ==> *out == __CPROVER_old(*out))
__CPROVER_ensures(S_STR_IS_HEX(src, h3v_w) ==> (__CPROVER_return_value == 1 && *out == h3v_w))
__CPROVER_ensures(!S_IS_SCAN_START(src[0]) ==> __CPROVER_return_value != 1);

H3Error h3ToString_contract(H3Index h, char *str, size_t sz)
__CPROVER_requires(sz < 17 || __CPROVER_is_fresh(str, sz))
__CPROVER_assigns(sz >= 17 : __CPROVER_object_upto(str, 17))   /* sz < 17: nothing may be written at all */
__CPROVER_ensures((sz < 17) ==> __CPROVER_return_value == S_ERR_MEMORY_BOUNDS)
__CPROVER_ensures((sz >= 17) ==> (__CPROVER_return_value == S_ERR_SUCCESS && S_STR_IS_HEX(str, h)));

H3Error stringToH3_contract(const char *str, H3Index *out)
__CPROVER_requires(__CPROVER_is_fresh(str, 17) && __CPROVER_is_fresh(out, sizeof(H3Index)))
__CPROVER_assigns(*out)
__CPROVER_ensures(__CPROVER_return_value == S_ERR_SUCCESS || __CPROVER_return_value == S_ERR_FAILED)
__CPROVER_ensures(__CPROVER_return_value != S_ERR_SUCCESS ==> *out == __CPROVER_old(*out))
/* the hex text of any value w parses back to w */
__CPROVER_ensures(S_STR_IS_HEX(str, h3v_w) ==> (__CPROVER_return_value == S_ERR_SUCCESS && *out == h3v_w))
/* text that cannot start a hexadecimal number: error, no result */
__CPROVER_ensures(!S_IS_SCAN_START(str[0]) ==> __CPROVER_return_value == S_ERR_FAILED);
