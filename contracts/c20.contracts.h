/* C20: string round trip.  Library half proved; libc half (h3v_sprintf_lx / h3v_sscanf_lx) assumed. */
#include "common.h"
#include "pre_libc.h"

/* ghost state of the ASSUMED libc contracts */
extern const char *h3v_fmt_dst;   /* where the last formatter call wrote */
extern uint64_t h3v_fmt_val;      /* the value it formatted */
extern int h3v_fmt_calls;
extern int h3v_scan_calls;
extern int h3v_scan_ret;          /* what the last parser call returned */
extern uint64_t h3v_scan_val;     /* what it stored (if it returned 1) */

/* ASSUMED: sprintf(dst, "%lx", v) writes the lowercase unpadded hex of v: 1..16 digits + NUL. */
int h3v_sprintf_lx_contract(char *dst, const char *fmt, uint64_t v)
__CPROVER_requires(__CPROVER_r_ok(fmt, 4) && fmt[0] == '%' && fmt[1] == 'l' && fmt[2] == 'x' && fmt[3] == 0)
__CPROVER_requires(__CPROVER_w_ok(dst, 17))
__CPROVER_assigns(__CPROVER_object_upto(dst, 17), h3v_fmt_dst, h3v_fmt_val, h3v_fmt_calls)
__CPROVER_ensures(__CPROVER_return_value >= 1 && __CPROVER_return_value <= 16)
__CPROVER_ensures(dst[__CPROVER_return_value] == 0)
__CPROVER_ensures(h3v_fmt_dst == dst && h3v_fmt_val == v && h3v_fmt_calls == __CPROVER_old(h3v_fmt_calls) + 1);

/* ASSUMED: sscanf(src, "%lx", out) returns 1 and stores the value iff the text starts with a hex
 * number, otherwise returns 0 or EOF and stores nothing; it inverts the formatter above. */
int h3v_sscanf_lx_contract(const char *src, const char *fmt, uint64_t *out)
__CPROVER_requires(__CPROVER_r_ok(fmt, 4) && fmt[0] == '%' && fmt[1] == 'l' && fmt[2] == 'x' && fmt[3] == 0)
__CPROVER_requires(__CPROVER_w_ok(out, 8))
__CPROVER_assigns(*out, h3v_scan_ret, h3v_scan_val, h3v_scan_calls)
__CPROVER_ensures(__CPROVER_return_value == 1 || __CPROVER_return_value == 0 || __CPROVER_return_value == -1)
__CPROVER_ensures(h3v_scan_ret == __CPROVER_return_value && h3v_scan_calls == __CPROVER_old(h3v_scan_calls) + 1)
__CPROVER_ensures(__CPROVER_return_value == 1 ? *out == h3v_scan_val : *out == __CPROVER_old(*out))
__CPROVER_ensures((src == h3v_fmt_dst) ==> (__CPROVER_return_value == 1 && *out == h3v_fmt_val));

H3Error h3ToString_contract(H3Index h, char *str, size_t sz)
__CPROVER_requires(sz < 17 || __CPROVER_is_fresh(str, sz))
__CPROVER_requires(h3v_fmt_calls == 0)
__CPROVER_assigns(sz >= 17 : __CPROVER_object_upto(str, 17); h3v_fmt_dst, h3v_fmt_val, h3v_fmt_calls)
__CPROVER_ensures((sz < 17) ==> (__CPROVER_return_value == S_ERR_MEMORY_BOUNDS && h3v_fmt_calls == 0))
__CPROVER_ensures((sz >= 17) ==> (__CPROVER_return_value == S_ERR_SUCCESS && h3v_fmt_calls == 1 &&
                                  h3v_fmt_dst == str && h3v_fmt_val == h));

H3Error stringToH3_contract(const char *str, H3Index *out)
__CPROVER_requires(__CPROVER_is_fresh(out, sizeof(H3Index)))
__CPROVER_requires(h3v_scan_calls == 0)
__CPROVER_assigns(*out, h3v_scan_ret, h3v_scan_val, h3v_scan_calls)
__CPROVER_ensures(h3v_scan_calls == 1)
__CPROVER_ensures(__CPROVER_return_value == S_ERR_SUCCESS || __CPROVER_return_value == S_ERR_FAILED)
__CPROVER_ensures((__CPROVER_return_value == S_ERR_SUCCESS) == (h3v_scan_ret == 1))
__CPROVER_ensures(__CPROVER_return_value == S_ERR_SUCCESS ? *out == h3v_scan_val : *out == __CPROVER_old(*out))
__CPROVER_ensures((str == h3v_fmt_dst) ==> (__CPROVER_return_value == S_ERR_SUCCESS && *out == h3v_fmt_val));
