/* C19: getIcosahedronFaces -- output shape by contract; the geometric helpers are frame-only contracts with ghost bookkeeping. */
#ifndef H3V_C19_CONTRACTS_H
#define H3V_C19_CONTRACTS_H
#include "c12.contracts.h"
/* ghosts: number of per-vertex face adjustments performed; whether one of them produced the (universally quantified) face h3v_wf */
extern int h3v_adj_calls;
extern int h3v_wf;
extern _Bool h3v_seen;
H3Error _h3ToFaceIjk_frame(H3Index h, FaceIJK *fijk)
__CPROVER_requires(__CPROVER_rw_ok(fijk, sizeof(FaceIJK))) __CPROVER_assigns(*fijk) __CPROVER_ensures(__CPROVER_return_value <= 15);
void _faceIjkToVerts_frame(FaceIJK *fijk, int *res, FaceIJK *fijkVerts)
__CPROVER_requires(__CPROVER_rw_ok(fijk, sizeof(FaceIJK)) && __CPROVER_rw_ok(res, sizeof(int)) && __CPROVER_rw_ok(fijkVerts, 6 * sizeof(FaceIJK)))
__CPROVER_assigns(*fijk, *res, __CPROVER_object_whole(fijkVerts)) __CPROVER_ensures(1);
void _faceIjkPentToVerts_frame(FaceIJK *fijk, int *res, FaceIJK *fijkVerts)
__CPROVER_requires(__CPROVER_rw_ok(fijk, sizeof(FaceIJK)) && __CPROVER_rw_ok(res, sizeof(int)) && __CPROVER_rw_ok(fijkVerts, 5 * sizeof(FaceIJK)))
__CPROVER_assigns(*fijk, *res, __CPROVER_object_whole(fijkVerts)) __CPROVER_ensures(1);
/* ASSUMED: the adjusted vertex lies on one of the twenty faces */
Overage _adjustOverageClassII_frame(FaceIJK *fijk, int res, int pentLeading4, int substrate)
__CPROVER_requires(__CPROVER_rw_ok(fijk, sizeof(FaceIJK)))
__CPROVER_assigns(*fijk, h3v_adj_calls, h3v_seen)
__CPROVER_ensures(fijk->face >= 0 && fijk->face <= 19)
__CPROVER_ensures(h3v_adj_calls == __CPROVER_old(h3v_adj_calls) + 1 && h3v_seen == (__CPROVER_old(h3v_seen) || fijk->face == h3v_wf));
Overage _adjustPentVertOverage_frame(FaceIJK *fijk, int res)
__CPROVER_requires(__CPROVER_rw_ok(fijk, sizeof(FaceIJK)))
__CPROVER_assigns(*fijk, h3v_adj_calls, h3v_seen)
__CPROVER_ensures(fijk->face >= 0 && fijk->face <= 19)
__CPROVER_ensures(h3v_adj_calls == __CPROVER_old(h3v_adj_calls) + 1 && h3v_seen == (__CPROVER_old(h3v_seen) || fijk->face == h3v_wf));

#define C19_NSLOT(h) (S_IS_PENT(h) ? 5 : 2)
#define C19_HAS(out, n, f) ((out)[0] == (f) || (out)[1] == (f) || ((n) == 5 && ((out)[2] == (f) || (out)[3] == (f) || (out)[4] == (f))))
/* h3v_g < h3v_g2: universally quantified slot indexes */
extern int64_t h3v_g2;
H3Error getIcosahedronFaces_contract(H3Index h3, int *out)
__CPROVER_requires(__CPROVER_is_fresh(out, sizeof(int) * C19_NSLOT(h3)))
__CPROVER_requires(h3v_adj_calls == 0 && !h3v_seen && h3v_wf >= 0 && h3v_wf <= 19)
__CPROVER_assigns(__CPROVER_object_whole(out), h3v_adj_calls, h3v_seen)
__CPROVER_ensures(__CPROVER_return_value <= 15)
/* shape: distinct face numbers 0..19 first, then -1 padding */
__CPROVER_ensures((__CPROVER_return_value == 0 && 0 <= h3v_g && h3v_g < C19_NSLOT(h3)) ==> (out[h3v_g] >= -1 && out[h3v_g] <= 19))
__CPROVER_ensures((__CPROVER_return_value == 0 && 0 <= h3v_g && h3v_g < h3v_g2 && h3v_g2 < C19_NSLOT(h3)) ==>
                  ((out[h3v_g] == -1 ==> out[h3v_g2] == -1) && (out[h3v_g2] != -1 ==> out[h3v_g] != out[h3v_g2])))
/* every vertex of the cell is examined (5 for a pentagon, 6 for a hexagon), and the face of each examined vertex is reported */
__CPROVER_ensures(__CPROVER_return_value == 0 ==> h3v_adj_calls == (S_IS_PENT(h3) ? 5 : 6))
__CPROVER_ensures((__CPROVER_return_value == 0 && h3v_seen) ==> C19_HAS(out, C19_NSLOT(h3), h3v_wf));

#include "faces.h"
#endif
