/* C11: vertex indexes -- predicate/shape clauses by contract; cellToVertex itself enters as an uninterpreted deterministic function. */
#ifndef H3V_C11_CONTRACTS_H
#define H3V_C11_CONTRACTS_H
#include "c10.contracts.h"
#include "vertex.h"
H3Error __CPROVER_uninterpreted_vtx_err(H3Index cell, int vertexNum);
H3Index __CPROVER_uninterpreted_vtx(H3Index cell, int vertexNum);
H3Error cellToVertex_uf(H3Index cell, int vertexNum, H3Index *out)
__CPROVER_requires(__CPROVER_rw_ok(out, sizeof(H3Index)))
__CPROVER_assigns(*out)
__CPROVER_ensures(__CPROVER_return_value == __CPROVER_uninterpreted_vtx_err(cell, vertexNum) && __CPROVER_return_value <= 15)
__CPROVER_ensures(__CPROVER_return_value == 0 ==> *out == __CPROVER_uninterpreted_vtx(cell, vertexNum))
__CPROVER_ensures(__CPROVER_return_value != 0 ==> *out == __CPROVER_old(*out));

#define S_VTX_OWNER(v) ((((s_u64)(v)) & ~((((s_u64)15) << 59) | (((s_u64)7) << 56))) | (((s_u64)1) << 59))
int isValidVertex_contract(H3Index vertex)
__CPROVER_requires(1) __CPROVER_assigns()
/* valid <=> mode 4, the owner bits form a valid cell, and re-deriving the vertex from (owner, number) gives the same index */
__CPROVER_ensures(__CPROVER_return_value ==
                  ((S_MODE(vertex) == 4 && S_VALID_CELL(S_VTX_OWNER(vertex)) &&
                    __CPROVER_uninterpreted_vtx_err(S_VTX_OWNER(vertex), S_RSV(vertex)) == 0 &&
                    __CPROVER_uninterpreted_vtx(S_VTX_OWNER(vertex), S_RSV(vertex)) == vertex) ? 1 : 0));

H3Error cellToVertexes_contract(H3Index cell, H3Index *vertexes)
__CPROVER_requires(__CPROVER_is_fresh(vertexes, 6 * sizeof(H3Index)))
__CPROVER_assigns(__CPROVER_object_whole(vertexes))
__CPROVER_ensures(__CPROVER_return_value <= 15)
/* slot g (universally quantified) agrees with cellToVertex(cell, g); slot 5 of a pentagon is null */
__CPROVER_ensures((__CPROVER_return_value == 0 && 0 <= h3v_g && h3v_g < 6) ==>
                  ((S_IS_PENT(cell) && h3v_g == 5) ? vertexes[5] == 0
                   : (__CPROVER_uninterpreted_vtx_err(cell, (int)h3v_g) == 0 && vertexes[h3v_g] == __CPROVER_uninterpreted_vtx(cell, (int)h3v_g))))
/* an error of any needed slot is reported */
__CPROVER_ensures((0 <= h3v_g && h3v_g < 6 && !(S_IS_PENT(cell) && h3v_g == 5) && __CPROVER_uninterpreted_vtx_err(cell, (int)h3v_g) != 0) ==>
                  __CPROVER_return_value != 0);

/* cellToVertex: the vertex-number domain clause (callees by frame-only contracts) */
Direction directionForVertexNum_frame(const H3Index origin, const int vertexNum) __CPROVER_requires(1) __CPROVER_assigns()
__CPROVER_ensures(__CPROVER_return_value >= 0 && __CPROVER_return_value <= 7);
int vertexNumForDirection_frame(const H3Index origin, const Direction direction) __CPROVER_requires(1) __CPROVER_assigns()
__CPROVER_ensures(__CPROVER_return_value >= -1 && __CPROVER_return_value <= 5);
Direction directionForNeighbor_frame(H3Index origin, H3Index destination) __CPROVER_requires(1) __CPROVER_assigns()
__CPROVER_ensures(__CPROVER_return_value >= 0 && __CPROVER_return_value <= 7);
H3Error cellToVertex_contract(H3Index cell, int vertexNum, H3Index *out)
__CPROVER_requires(__CPROVER_is_fresh(out, sizeof(H3Index)))
__CPROVER_assigns(*out)
__CPROVER_ensures(__CPROVER_return_value <= 15)
__CPROVER_ensures((vertexNum < 0 || vertexNum > (S_IS_PENT(cell) ? 4 : 5)) ==> (__CPROVER_return_value == S_ERR_DOMAIN && *out == __CPROVER_old(*out)))
/* centre children own all their vertexes: the index is the cell itself with mode 4 and the vertex number */
__CPROVER_ensures((__CPROVER_return_value == 0 && S_RES(cell) > 0 && S_DIGIT(cell, S_RES(cell) > 0 ? S_RES(cell) : 1) == 0) ==>
                  *out == (S_VTX_OWNER(cell) ^ (((s_u64)1) << 59) ^ (((s_u64)4) << 59) | (((s_u64)vertexNum) << 56)));
#endif
