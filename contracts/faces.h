#ifndef H3V_FACES_H
#define H3V_FACES_H
/* Face adjacency of the icosahedron in H3's face numbering (two faces share an edge); spec data, written down here independently of the
 * library's faceNeighbors table (it is symmetric, 3-regular, and has exactly twelve 5-cycles: the face rings around the twelve icosahedron
 * vertices -- checked natively by replay/spec_selftest.c).  A pentagon is centred on an icosahedron vertex, so the five faces it touches are
 * the ring around that vertex: every reported face shares an edge with exactly two of the other four. */
static const signed char S_FACE_ADJ[20][3] = {{4, 1, 5}, {0, 2, 6}, {1, 3, 7}, {2, 4, 8}, {3, 0, 9}, {10, 14, 0}, {11, 10, 1}, {12, 11, 2}, {13, 12, 3},
    {14, 13, 4}, {5, 6, 15}, {6, 7, 16}, {7, 8, 17}, {8, 9, 18}, {9, 5, 19}, {16, 19, 10}, {17, 15, 11}, {18, 16, 12}, {19, 17, 13}, {15, 18, 14}};
static inline int sf_face_adj(int f, int g) { return S_FACE_ADJ[f][0] == g || S_FACE_ADJ[f][1] == g || S_FACE_ADJ[f][2] == g; }
/* out[0..4] are distinct faces 0..19 (precondition): each is adjacent to exactly two of the others */
static inline int sf_face_ring5(const int *o) {
    for (int a = 0; a < 5; a++) {
        int n = 0;
        for (int b = 0; b < 5; b++) if (b != a && sf_face_adj(o[a], o[b])) n++;
        if (n != 2) return 0;
    }
    return 1;
}
#endif
