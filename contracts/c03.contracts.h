/* C03 (counting clauses) and C06 (uncompact side). */
#ifndef H3V_C03_CONTRACTS_H
#define H3V_C03_CONTRACTS_H
#include "c04.contracts.h"
#include "baseCells.h"
#include "latLng.h"
int _isBaseCellPentagon_contract(int baseCell)
__CPROVER_requires(1)
__CPROVER_assigns()
__CPROVER_ensures(__CPROVER_return_value == ((baseCell >= 0 && baseCell < 122 && S_PENT_BC(baseCell)) ? 1 : 0));

H3Error getNumCells_contract(int res, int64_t *out)
__CPROVER_requires(__CPROVER_is_fresh(out, sizeof(int64_t)))
__CPROVER_assigns(*out)
__CPROVER_ensures((res < 0 || res > 15) ==> (__CPROVER_return_value == S_ERR_RES_DOMAIN && *out == __CPROVER_old(*out)))
__CPROVER_ensures((res >= 0 && res <= 15) ==> (__CPROVER_return_value == S_ERR_SUCCESS && *out == S_NUMCELLS(res)));

int pentagonCount_contract(void) __CPROVER_requires(1) __CPROVER_assigns() __CPROVER_ensures(__CPROVER_return_value == 12);
int res0CellCount_contract(void) __CPROVER_requires(1) __CPROVER_assigns() __CPROVER_ensures(__CPROVER_return_value == 122);

/* h3v_g: universally quantified slot index */
H3Error getRes0Cells_contract(H3Index *out)
__CPROVER_requires(__CPROVER_is_fresh(out, 122 * sizeof(H3Index)))
__CPROVER_assigns(__CPROVER_object_whole(out))
__CPROVER_ensures(__CPROVER_return_value == S_ERR_SUCCESS)
__CPROVER_ensures((0 <= h3v_g && h3v_g < 122) ==> (out[h3v_g] == S_CELL0(0, h3v_g) && S_VALID_CELL(out[h3v_g])));

H3Error getPentagons_contract(int res, H3Index *out)
__CPROVER_requires(__CPROVER_is_fresh(out, 12 * sizeof(H3Index)))
__CPROVER_assigns(__CPROVER_object_whole(out))
__CPROVER_ensures((res < 0 || res > 15) ==> __CPROVER_return_value == S_ERR_RES_DOMAIN)
__CPROVER_ensures((res >= 0 && res <= 15) ==> __CPROVER_return_value == S_ERR_SUCCESS)
__CPROVER_ensures((res >= 0 && res <= 15 && 0 <= h3v_g && h3v_g < 12) ==>
                  (out[h3v_g] == S_CELL0(res, S_PENT_I(h3v_g)) && S_VALID_CELL(out[h3v_g]) && S_IS_PENT(out[h3v_g])));

/* ---- C06, uncompact side.  Callees by frame-only contracts: only the write discipline matters here. */
void iterStepChild_frame06(IterCellsChildren *it)
__CPROVER_requires(__CPROVER_rw_ok(it, sizeof(IterCellsChildren)))
__CPROVER_assigns(*it)
__CPROVER_ensures(1);
void _iterInitParent_frame06(H3Index h, int childRes, IterCellsChildren *it)
__CPROVER_requires(__CPROVER_rw_ok(it, sizeof(IterCellsChildren)))
__CPROVER_assigns(*it)
__CPROVER_ensures(1);
#define S_HAS_CHILD_AT(h, res) ((res) >= S_RES(h) && (res) <= 15)
H3Error uncompactCells_contract(const H3Index *compactedSet, const int64_t numCompacted, H3Index *outSet, const int64_t numOut, const int res)
__CPROVER_requires(numCompacted <= (((int64_t)1) << 40) && numOut >= 0 && numOut <= (((int64_t)1) << 40))
__CPROVER_requires(__CPROVER_is_fresh(compactedSet, sizeof(H3Index) * (numCompacted > 0 ? numCompacted : 1)))
__CPROVER_requires(__CPROVER_is_fresh(outSet, sizeof(H3Index) * (numOut > 0 ? numOut : 1)))
__CPROVER_assigns(__CPROVER_object_whole(outSet))
__CPROVER_ensures(__CPROVER_return_value == S_ERR_SUCCESS || __CPROVER_return_value == S_ERR_RES_MISMATCH ||
                  __CPROVER_return_value == S_ERR_MEMORY_BOUNDS)
/* success implies every input cell (any index g) admits the target resolution */
__CPROVER_ensures((__CPROVER_return_value == S_ERR_SUCCESS && 0 <= h3v_g && h3v_g < numCompacted) ==> S_HAS_CHILD_AT(compactedSet[h3v_g], res));

H3Error uncompactCellsSize_contract(const H3Index *compactedSet, const int64_t numCompacted, const int res, int64_t *out)
__CPROVER_requires(numCompacted <= 1000000)   /* above ~1.9e6 coarse cells the running sum itself can overflow: see DESIGN, finding F5 */
__CPROVER_requires(__CPROVER_is_fresh(compactedSet, sizeof(H3Index) * (numCompacted > 0 ? numCompacted : 1)))
__CPROVER_requires(__CPROVER_is_fresh(out, sizeof(int64_t)))
__CPROVER_assigns(*out)
__CPROVER_ensures(__CPROVER_return_value == S_ERR_SUCCESS || __CPROVER_return_value == S_ERR_RES_MISMATCH)
__CPROVER_ensures((0 <= h3v_g && h3v_g < numCompacted && compactedSet[h3v_g] != 0 && !S_HAS_CHILD_AT(compactedSet[h3v_g], res)) ==>
                  __CPROVER_return_value == S_ERR_RES_MISMATCH)
__CPROVER_ensures((__CPROVER_return_value == S_ERR_SUCCESS && 0 <= h3v_g && h3v_g < numCompacted && compactedSet[h3v_g] != 0) ==>
                  *out >= sf_nchild(compactedSet[h3v_g], res))
__CPROVER_ensures(__CPROVER_return_value == S_ERR_SUCCESS ==> (*out >= 0 && (numCompacted <= 0 || *out <= (numCompacted << 43))));
/* the same function without the input-size bound: only memory safety and the arithmetic checks (KNOWN FINDING: the running sum) */
H3Error uncompactCellsSize_any(const H3Index *compactedSet, const int64_t numCompacted, const int res, int64_t *out)
__CPROVER_requires(numCompacted <= (((int64_t)1) << 40))
__CPROVER_requires(__CPROVER_is_fresh(compactedSet, sizeof(H3Index) * (numCompacted > 0 ? numCompacted : 1)))
__CPROVER_requires(__CPROVER_is_fresh(out, sizeof(int64_t)))
__CPROVER_assigns(*out)
__CPROVER_ensures(__CPROVER_return_value == S_ERR_SUCCESS || __CPROVER_return_value == S_ERR_RES_MISMATCH);
#endif
