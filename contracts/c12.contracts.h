/* C12 totality contracts (argument domains and documented codes), C14 announced-size clauses, C09/C02 argument clauses. */
#ifndef H3V_C12_CONTRACTS_H
#define H3V_C12_CONTRACTS_H
#include "c04.contracts.h"
#include "algos.h"
#include "coordijk.h"
#include "localij.h"
#include "latLng.h"
#include "faceijk.h"
#define S_FINITE(x) ((x) == (x) && (x) - (x) == 0.0)   /* neither NaN nor an infinity */
extern int64_t h3v_n;      /* opaque ghost buffer size */
extern int64_t h3v_dist;   /* opaque ghost: the grid distance reported for (start, end) */
extern H3Error h3v_err;    /* opaque ghost: the error gridDistance reports for (start, end) */

#define RES_TABLE_CONTRACT(NAME)                                                                        \
H3Error NAME##_contract(int res, double *out)                                                           \
__CPROVER_requires(__CPROVER_is_fresh(out, sizeof(double)))                                             \
__CPROVER_assigns(*out)                                                                                 \
__CPROVER_ensures((res < 0 || res > 15) ==> __CPROVER_return_value == S_ERR_RES_DOMAIN)                 \
__CPROVER_ensures((res >= 0 && res <= 15) ==> (__CPROVER_return_value == S_ERR_SUCCESS && *out > 0.0));
RES_TABLE_CONTRACT(getHexagonAreaAvgKm2)
RES_TABLE_CONTRACT(getHexagonAreaAvgM2)
RES_TABLE_CONTRACT(getHexagonEdgeLengthAvgKm)
RES_TABLE_CONTRACT(getHexagonEdgeLengthAvgM)

int getResolution_contract(H3Index h) __CPROVER_requires(1) __CPROVER_assigns() __CPROVER_ensures(__CPROVER_return_value == S_RES(h));
int getBaseCellNumber_contract(H3Index h) __CPROVER_requires(1) __CPROVER_assigns() __CPROVER_ensures(__CPROVER_return_value == S_BC(h));
int isResClassIII_contract(H3Index h) __CPROVER_requires(1) __CPROVER_assigns() __CPROVER_ensures(__CPROVER_return_value == (S_RES(h) & 1));
H3Error maxFaceCount_contract(H3Index h3, int *out)
__CPROVER_requires(__CPROVER_is_fresh(out, sizeof(int)))
__CPROVER_assigns(*out)
__CPROVER_ensures(__CPROVER_return_value == S_ERR_SUCCESS && *out == (S_IS_PENT(h3) ? 5 : 2));
const char *describeH3Error_contract(H3Error err)
__CPROVER_requires(1) __CPROVER_assigns()
__CPROVER_ensures(1);   /* memory safety and frame only: the table of descriptions is a mutable global (see C18) */

H3Error maxGridDiskSize_contract(int k, int64_t *out)
__CPROVER_requires(__CPROVER_is_fresh(out, sizeof(int64_t)))
__CPROVER_assigns(*out)
__CPROVER_ensures(k < 0 ==> (__CPROVER_return_value == S_ERR_DOMAIN && *out == __CPROVER_old(*out)))
__CPROVER_ensures(k >= 0 ==> (__CPROVER_return_value == S_ERR_SUCCESS &&
                              /* min(3k(k+1)+1, number of cells at resolution 15); 3k(k+1)+1 exceeds that from k = 13780510 on */
                              *out == ((k > 20000000 || S_DISK(k > 20000000 ? 0 : k) >= S_NUMCELLS(15)) ? S_NUMCELLS(15) : S_DISK(k > 20000000 ? 0 : k)) &&
                              *out >= 1));

/* ---- frame-only views of the neighbour step and pentagon test for the traversal loops */
H3Error h3NeighborRotations_frame(H3Index origin, Direction dir, int *rotations, H3Index *out)
__CPROVER_requires(__CPROVER_rw_ok(rotations, sizeof(int)) && __CPROVER_rw_ok(out, sizeof(H3Index)))
__CPROVER_assigns(*rotations, *out)
__CPROVER_ensures(__CPROVER_return_value <= 15);

/* gridRingUnsafe: buffer of 6k cells (1 for k == 0); negative k has no documented size and must be refused */
H3Error gridRingUnsafe_contract(H3Index origin, int k, H3Index *out)
__CPROVER_requires(k <= (1 << 26))
__CPROVER_requires(__CPROVER_is_fresh(out, sizeof(H3Index) * (k <= 0 ? 1 : 6 * (int64_t)k)))
__CPROVER_assigns(__CPROVER_object_whole(out))
__CPROVER_ensures(__CPROVER_return_value <= 15)
__CPROVER_ensures(k < 0 ==> __CPROVER_return_value == S_ERR_DOMAIN)
__CPROVER_ensures(k == 0 ==> (__CPROVER_return_value == S_ERR_SUCCESS && out[0] == origin))
/* a ring that touches a pentagon is reported as an error, never returned (h3v_g: universally quantified slot) */
__CPROVER_ensures((k >= 1 && __CPROVER_return_value == S_ERR_SUCCESS && 0 <= h3v_g && h3v_g < 6 * (int64_t)k) ==> !S_IS_PENT(out[h3v_g]));

/* ---- local IJ / distance / path: argument clauses */
H3Error cellToLocalIjk_frame(H3Index origin, H3Index h3, CoordIJK *out)
__CPROVER_requires(__CPROVER_rw_ok(out, sizeof(CoordIJK)))
__CPROVER_assigns(*out)
__CPROVER_ensures(__CPROVER_return_value <= 15);
H3Error localIjkToCell_frame(H3Index origin, const CoordIJK *ijk, H3Index *out)
__CPROVER_requires(__CPROVER_r_ok(ijk, sizeof(CoordIJK)) && __CPROVER_rw_ok(out, sizeof(H3Index)))
__CPROVER_assigns(*out)
__CPROVER_ensures(__CPROVER_return_value <= 15);
void ijkToCube_frame(CoordIJK *ijk) __CPROVER_requires(__CPROVER_rw_ok(ijk, sizeof(CoordIJK))) __CPROVER_assigns(*ijk) __CPROVER_ensures(1);
void cubeToIjk_frame(CoordIJK *ijk) __CPROVER_requires(__CPROVER_rw_ok(ijk, sizeof(CoordIJK))) __CPROVER_assigns(*ijk) __CPROVER_ensures(1);
void ijkToIj_frame(const CoordIJK *ijk, CoordIJ *ij)
__CPROVER_requires(__CPROVER_r_ok(ijk, sizeof(CoordIJK)) && __CPROVER_rw_ok(ij, sizeof(CoordIJ))) __CPROVER_assigns(*ij) __CPROVER_ensures(1);
int ijkDistance_frame(const CoordIJK *a, const CoordIJK *b)
__CPROVER_requires(__CPROVER_r_ok(a, sizeof(CoordIJK)) && __CPROVER_r_ok(b, sizeof(CoordIJK))) __CPROVER_assigns()
__CPROVER_ensures(__CPROVER_return_value >= 0);

H3Error cellToLocalIj_contract(H3Index origin, H3Index index, uint32_t mode, CoordIJ *out)
__CPROVER_requires(__CPROVER_is_fresh(out, sizeof(CoordIJ)))
__CPROVER_assigns(*out)
__CPROVER_ensures(__CPROVER_return_value <= 15)
__CPROVER_ensures(mode != 0 ==> (__CPROVER_return_value == S_ERR_OPTION_INVALID && out->i == __CPROVER_old(out->i) && out->j == __CPROVER_old(out->j)));
H3Error localIjToCell_contract(H3Index origin, const CoordIJ *ij, uint32_t mode, H3Index *out)
__CPROVER_requires(__CPROVER_is_fresh(ij, sizeof(CoordIJ)) && __CPROVER_is_fresh(out, sizeof(H3Index)))
__CPROVER_assigns(*out)
__CPROVER_ensures(__CPROVER_return_value <= 15)
__CPROVER_ensures(mode != 0 ==> (__CPROVER_return_value == S_ERR_OPTION_INVALID && *out == __CPROVER_old(*out)));

/* cellToLocalIjk's error code as a deterministic function of its arguments; differing resolutions are a mismatch
 * (that clause is enforced on the real cellToLocalIjk by job c09.cellToLocalIjk.mismatch) */
H3Error __CPROVER_uninterpreted_lijk_err(H3Index origin, H3Index h3);
H3Error cellToLocalIjk_uf(H3Index origin, H3Index h3, CoordIJK *out)
__CPROVER_requires(__CPROVER_rw_ok(out, sizeof(CoordIJK)))
__CPROVER_assigns(*out)
__CPROVER_ensures(__CPROVER_return_value == __CPROVER_uninterpreted_lijk_err(origin, h3) && __CPROVER_return_value <= 15)
__CPROVER_ensures(S_RES(origin) != S_RES(h3) ==> __CPROVER_return_value == S_ERR_RES_MISMATCH);
H3Error gridDistance_contract(H3Index origin, H3Index index, int64_t *out)
__CPROVER_requires(__CPROVER_is_fresh(out, sizeof(int64_t)))
__CPROVER_assigns(*out)
__CPROVER_ensures(__CPROVER_return_value <= 15)
/* differing resolutions: E_RES_MISMATCH (unless the origin itself is already rejected) */
__CPROVER_ensures(S_RES(origin) != S_RES(index) ==>
                  __CPROVER_return_value == (__CPROVER_uninterpreted_lijk_err(origin, origin) != 0 ? __CPROVER_uninterpreted_lijk_err(origin, origin)
                                                                                                  : (H3Error)S_ERR_RES_MISMATCH))
__CPROVER_ensures(__CPROVER_return_value == 0 ==> *out >= 0)
__CPROVER_ensures(__CPROVER_return_value != 0 ==> *out == __CPROVER_old(*out));
/* gridDistance as an opaque deterministic result (ghosts h3v_err / h3v_dist) for its callers */
H3Error gridDistance_ghost(H3Index origin, H3Index index, int64_t *out)
__CPROVER_requires(__CPROVER_rw_ok(out, sizeof(int64_t)))
__CPROVER_assigns(*out)
__CPROVER_ensures(__CPROVER_return_value == h3v_err && (h3v_err == 0 ==> *out == h3v_dist) && (h3v_err != 0 ==> *out == __CPROVER_old(*out)));

H3Error gridPathCellsSize_contract(H3Index start, H3Index end, int64_t *size)
__CPROVER_requires(__CPROVER_is_fresh(size, sizeof(int64_t)))
__CPROVER_requires(h3v_err <= 15 && h3v_dist >= 0 && h3v_dist < (((int64_t)1) << 40))
__CPROVER_assigns(*size)
__CPROVER_ensures(__CPROVER_return_value == h3v_err)
__CPROVER_ensures(h3v_err == 0 ==> *size == h3v_dist + 1)
__CPROVER_ensures(h3v_err != 0 ==> *size == __CPROVER_old(*size));

/* gridPathCells: the buffer has the announced size distance+1 (when the size function succeeds); nothing is written
 * when gridDistance fails, and never anything beyond the announced size */
H3Error gridPathCells_contract(H3Index start, H3Index end, H3Index *out)
__CPROVER_requires(h3v_err <= 15 && h3v_dist >= 0 && h3v_dist < (((int64_t)1) << 40))
__CPROVER_requires(h3v_err != 0 || __CPROVER_is_fresh(out, sizeof(H3Index) * (h3v_dist + 1)))
__CPROVER_assigns(h3v_err == 0 : __CPROVER_object_whole(out))
__CPROVER_ensures(__CPROVER_return_value <= 15)
__CPROVER_ensures(h3v_err != 0 ==> __CPROVER_return_value == h3v_err);

/* ---- latLngToCell: argument validation (C02 / C12) */
void _geoToFaceIjk_frame(const LatLng *g, int res, FaceIJK *h)
__CPROVER_requires(__CPROVER_r_ok(g, sizeof(LatLng)) && __CPROVER_rw_ok(h, sizeof(FaceIJK)) && res >= 0 && res <= 15)
__CPROVER_assigns(*h) __CPROVER_ensures(1);
H3Index _faceIjkToH3_frame(const FaceIJK *fijk, int res)
__CPROVER_requires(__CPROVER_r_ok(fijk, sizeof(FaceIJK)) && res >= 0 && res <= 15)
__CPROVER_assigns() __CPROVER_ensures(1);
H3Error latLngToCell_contract(const LatLng *g, int res, H3Index *out)
__CPROVER_requires(__CPROVER_is_fresh(g, sizeof(LatLng)) && __CPROVER_is_fresh(out, sizeof(H3Index)))
__CPROVER_assigns(*out)
__CPROVER_ensures((res < 0 || res > 15) ==> (__CPROVER_return_value == S_ERR_RES_DOMAIN && *out == __CPROVER_old(*out)))
__CPROVER_ensures((res >= 0 && res <= 15 && (!S_FINITE(g->lat) || !S_FINITE(g->lng))) ==>
                  (__CPROVER_return_value == S_ERR_LATLNG_DOMAIN && *out == __CPROVER_old(*out)))
__CPROVER_ensures((res >= 0 && res <= 15 && S_FINITE(g->lat) && S_FINITE(g->lng)) ==>
                  ((__CPROVER_return_value == S_ERR_SUCCESS && *out != 0) || (__CPROVER_return_value == S_ERR_FAILED && *out == 0)));

/* ---- overflow-guarded aperture-7 steps (C09): for all non-negative int32 inputs no arithmetic UB, result E_SUCCESS or E_FAILED */
#define AP7_CONTRACT(NAME)                                                                               \
H3Error NAME##_contract(CoordIJK *ijk)                                                                   \
__CPROVER_requires(__CPROVER_is_fresh(ijk, sizeof(CoordIJK)) && ijk->i >= 0 && ijk->j >= 0 && ijk->k >= 0) \
__CPROVER_assigns(*ijk)                                                                                  \
__CPROVER_ensures(__CPROVER_return_value == S_ERR_SUCCESS || __CPROVER_return_value == S_ERR_FAILED)      \
__CPROVER_ensures(__CPROVER_return_value == S_ERR_SUCCESS ==> (ijk->i >= 0 && ijk->j >= 0 && ijk->k >= 0 && \
                  (ijk->i == 0 || ijk->j == 0 || ijk->k == 0)));
AP7_CONTRACT(_upAp7Checked)
AP7_CONTRACT(_upAp7rChecked)

H3Error ijToIjk_contract(const CoordIJ *ij, CoordIJK *ijk)
__CPROVER_requires(__CPROVER_is_fresh(ij, sizeof(CoordIJ)) && __CPROVER_is_fresh(ijk, sizeof(CoordIJK)))
__CPROVER_assigns(*ijk)
__CPROVER_ensures(__CPROVER_return_value == S_ERR_SUCCESS || __CPROVER_return_value == S_ERR_FAILED)
__CPROVER_ensures(__CPROVER_return_value == S_ERR_SUCCESS ==> (ijk->i >= 0 && ijk->j >= 0 && ijk->k >= 0 &&
                  (ijk->i == 0 || ijk->j == 0 || ijk->k == 0) && ijk->i - ijk->k == ij->i && ijk->j - ijk->k == ij->j));

/* the hash-set insertion of the safe disk: every probe stays inside the maxIdx slots of both arrays (recursive contract) */
H3Error _gridDiskDistancesInternal_contract(H3Index origin, int k, H3Index *out, int *distances, int64_t maxIdx, int curK)
__CPROVER_requires(maxIdx >= 1 && maxIdx <= (((int64_t)1) << 40))
__CPROVER_requires(__CPROVER_is_fresh(out, sizeof(H3Index) * maxIdx) && __CPROVER_is_fresh(distances, sizeof(int) * maxIdx))
__CPROVER_requires(curK >= 0)
__CPROVER_assigns(__CPROVER_object_whole(out), __CPROVER_object_whole(distances))
__CPROVER_ensures(__CPROVER_return_value <= 15);

/* localIjkToCell on arbitrary inputs: memory safety / no arithmetic UB (functional meaning: not decided) */
H3Error localIjkToCell_safe(H3Index origin, const CoordIJK *ijk, H3Index *out)
__CPROVER_requires(__CPROVER_is_fresh(ijk, sizeof(CoordIJK)) && __CPROVER_is_fresh(out, sizeof(H3Index)))
__CPROVER_requires(ijk->i >= 0 && ijk->j >= 0 && ijk->k >= 0)
__CPROVER_assigns(*out)
__CPROVER_ensures(__CPROVER_return_value <= 15);
/* cellToLocalIjk on arbitrary inputs */
H3Error cellToLocalIjk_safe(H3Index origin, H3Index h3, CoordIJK *out)
__CPROVER_requires(__CPROVER_is_fresh(out, sizeof(CoordIJK)))
__CPROVER_assigns(*out)
__CPROVER_ensures(__CPROVER_return_value <= 15)
__CPROVER_ensures(S_RES(origin) != S_RES(h3) ==> __CPROVER_return_value == S_ERR_RES_MISMATCH);

/* gridDiskDistancesUnsafe: ring bookkeeping without arithmetic overflow for every k up to 30000 (the output index passes
 * 2^31 at k = 26755); the write BOUND (index < maxGridDiskSize(k)) is a quadratic fact that is not decided here */
H3Error gridDiskDistancesUnsafe_contract(H3Index origin, int k, H3Index *out, int *distances)
__CPROVER_requires(k <= 30000 && h3v_n >= 1 && h3v_n <= (((int64_t)1) << 36))
__CPROVER_requires(__CPROVER_is_fresh(out, sizeof(H3Index) * h3v_n) && __CPROVER_is_fresh(distances, sizeof(int) * h3v_n))   /* with a distances array (the NULL case only skips the stores) */
__CPROVER_assigns(__CPROVER_object_whole(out), __CPROVER_object_whole(distances))
__CPROVER_ensures(__CPROVER_return_value <= 15)
__CPROVER_ensures(k < 0 ==> __CPROVER_return_value == S_ERR_DOMAIN);
/* the resolution-mismatch clause of cellToLocalIjk on the real code (partial contract: precondition = resolutions differ) */
H3Error cellToLocalIjk_mismatch(H3Index origin, H3Index h3, CoordIJK *out)
__CPROVER_requires(__CPROVER_is_fresh(out, sizeof(CoordIJK)) && S_RES(origin) != S_RES(h3))
__CPROVER_assigns(*out)
__CPROVER_ensures(__CPROVER_return_value == S_ERR_RES_MISMATCH && out->i == __CPROVER_old(out->i) && out->j == __CPROVER_old(out->j) && out->k == __CPROVER_old(out->k));

/* ---- unit-scaling wrappers (C12 totality, C18 frames): error pass-through and "output untouched on error"; the scaled VALUE is not
 * stated: an equality of two double multiplications is a floating-point miter that did not finish */
extern double h3v_dbl;      /* what the radians-level callee stores / returns */
extern H3Error h3v_derr;    /* and its error code */
#define S_EARTH_KM 6371.007180918475
H3Error cellAreaRads2_ghost(H3Index cell, double *out)
__CPROVER_requires(__CPROVER_rw_ok(out, sizeof(double)) && h3v_derr <= 15)
__CPROVER_assigns(*out)
__CPROVER_ensures(__CPROVER_return_value == h3v_derr && (h3v_derr == 0 ? *out == h3v_dbl : *out == __CPROVER_old(*out)));
H3Error cellAreaKm2_contract(H3Index cell, double *out)
__CPROVER_requires(__CPROVER_is_fresh(out, sizeof(double)) && h3v_derr <= 15 && h3v_dbl == h3v_dbl)
__CPROVER_assigns(*out)
__CPROVER_ensures(__CPROVER_return_value == h3v_derr)
__CPROVER_ensures(h3v_derr != 0 ==> *out == __CPROVER_old(*out));
H3Error cellAreaKm2_ghost(H3Index cell, double *out)
__CPROVER_requires(__CPROVER_rw_ok(out, sizeof(double)) && h3v_derr <= 15)
__CPROVER_assigns(*out)
__CPROVER_ensures(__CPROVER_return_value == h3v_derr && (h3v_derr == 0 ? *out == h3v_dbl : *out == __CPROVER_old(*out)));
H3Error cellAreaM2_contract(H3Index cell, double *out)
__CPROVER_requires(__CPROVER_is_fresh(out, sizeof(double)) && h3v_derr <= 15 && h3v_dbl == h3v_dbl)
__CPROVER_assigns(*out)
__CPROVER_ensures(__CPROVER_return_value == h3v_derr)
__CPROVER_ensures(h3v_derr != 0 ==> *out == __CPROVER_old(*out));
double greatCircleDistanceRads_ghost(const LatLng *a, const LatLng *b)
__CPROVER_requires(1) __CPROVER_assigns() __CPROVER_ensures(__CPROVER_return_value == h3v_dbl);
double greatCircleDistanceKm_contract(const LatLng *a, const LatLng *b)
__CPROVER_requires(1) __CPROVER_assigns() __CPROVER_ensures(1);
double greatCircleDistanceKm_ghost(const LatLng *a, const LatLng *b)
__CPROVER_requires(1) __CPROVER_assigns() __CPROVER_ensures(__CPROVER_return_value == h3v_dbl);
double greatCircleDistanceM_contract(const LatLng *a, const LatLng *b)
__CPROVER_requires(1) __CPROVER_assigns() __CPROVER_ensures(1);
H3Error edgeLengthRads_ghost(H3Index edge, double *length)
__CPROVER_requires(__CPROVER_rw_ok(length, sizeof(double)) && h3v_derr <= 15)
__CPROVER_assigns(*length)
__CPROVER_ensures(__CPROVER_return_value == h3v_derr && (h3v_derr == 0 ==> *length == h3v_dbl));
H3Error edgeLengthKm_contract(H3Index edge, double *length)
__CPROVER_requires(__CPROVER_is_fresh(length, sizeof(double)) && h3v_derr <= 15 && h3v_dbl == h3v_dbl)
__CPROVER_assigns(*length)
__CPROVER_ensures(__CPROVER_return_value == h3v_derr);
H3Error edgeLengthKm_ghost(H3Index edge, double *length)
__CPROVER_requires(__CPROVER_rw_ok(length, sizeof(double)) && h3v_derr <= 15)
__CPROVER_assigns(*length)
__CPROVER_ensures(__CPROVER_return_value == h3v_derr && (h3v_derr == 0 ==> *length == h3v_dbl));
H3Error edgeLengthM_contract(H3Index edge, double *length)
__CPROVER_requires(__CPROVER_is_fresh(length, sizeof(double)) && h3v_derr <= 15 && h3v_dbl == h3v_dbl)
__CPROVER_assigns(*length)
__CPROVER_ensures(__CPROVER_return_value == h3v_derr);
double degsToRads_contract(double d) __CPROVER_requires(1) __CPROVER_assigns() __CPROVER_ensures(1);
double radsToDegs_contract(double r) __CPROVER_requires(1) __CPROVER_assigns() __CPROVER_ensures(1);
/* gridDiskUnsafe / gridDiskDistancesSafe: thin wrappers, error pass-through */
H3Error gridDiskDistancesUnsafe_ghost(H3Index origin, int k, H3Index *out, int *distances)
__CPROVER_requires(h3v_err <= 15) __CPROVER_assigns(__CPROVER_object_whole(out)) __CPROVER_ensures(__CPROVER_return_value == h3v_err && distances == NULL);
H3Error gridDiskUnsafe_contract(H3Index origin, int k, H3Index *out)
__CPROVER_requires(h3v_err <= 15 && h3v_n >= 1 && h3v_n <= (1 << 20) && __CPROVER_is_fresh(out, sizeof(H3Index) * h3v_n))
__CPROVER_assigns(__CPROVER_object_whole(out))
__CPROVER_ensures(__CPROVER_return_value == h3v_err);

/* ---- _h3ToFaceIjk: the integer half of cellToLatLng / cellToBoundary / getIcosahedronFaces / vertexToLatLng, on ARBITRARY 64-bit indexes
 * (invalid base cell, digit 7 inside the resolution, deleted sub-sequence ...): memory safety of every table read, no arithmetic UB,
 * result code, face in range.  Two enforced variants split the domain by the kind of base cell (the secondary-overage while loop is
 * reachable for pentagon base cells only). */
H3Error _h3ToFaceIjk_hexbc(H3Index h, FaceIJK *fijk)
__CPROVER_requires(__CPROVER_is_fresh(fijk, sizeof(FaceIJK)) && !S_PENT_BC(S_BC(h)))
__CPROVER_assigns(*fijk)
__CPROVER_ensures(__CPROVER_return_value == 0 || __CPROVER_return_value == S_ERR_CELL_INVALID)
__CPROVER_ensures((S_BC(h) >= 122) == (__CPROVER_return_value == S_ERR_CELL_INVALID))
__CPROVER_ensures(fijk->face >= 0 && fijk->face <= 19)
__CPROVER_ensures(__CPROVER_return_value == S_ERR_CELL_INVALID ==> (fijk->face == 0 && fijk->coord.i == 0 && fijk->coord.j == 0 && fijk->coord.k == 0));
/* _adjustOverageClassII on ANY coordinates: entered with a face 0..19 and a Class II resolution index 0..16 it reads its tables in bounds and
 * leaves a face 0..19 (enforced on the real function; also discharges the face-range half of C19's assumed helper contract) */
Overage _adjustOverageClassII_safe(FaceIJK *fijk, int res, int pentLeading4, int substrate)
__CPROVER_requires(__CPROVER_rw_ok(fijk, sizeof(FaceIJK)) && fijk->face >= 0 && fijk->face <= 19 && res >= 0 && res <= 16)
__CPROVER_assigns(*fijk)
__CPROVER_ensures(fijk->face >= 0 && fijk->face <= 19)
__CPROVER_ensures(__CPROVER_return_value == NO_OVERAGE || __CPROVER_return_value == FACE_EDGE || __CPROVER_return_value == NEW_FACE);
/* the invalid-base-cell clause alone (partial contract: precondition = base-cell number 122..127); cheap, quick tier */
H3Error _h3ToFaceIjk_badbc(H3Index h, FaceIJK *fijk)
__CPROVER_requires(__CPROVER_is_fresh(fijk, sizeof(FaceIJK)) && S_BC(h) >= 122)
__CPROVER_assigns(*fijk)
__CPROVER_ensures(__CPROVER_return_value == S_ERR_CELL_INVALID && fijk->face == 0 && fijk->coord.i == 0 && fijk->coord.j == 0 && fijk->coord.k == 0);
H3Error _h3ToFaceIjk_pentbc(H3Index h, FaceIJK *fijk)
__CPROVER_requires(__CPROVER_is_fresh(fijk, sizeof(FaceIJK)) && S_PENT_BC(S_BC(h)))
__CPROVER_assigns(*fijk)
__CPROVER_ensures(__CPROVER_return_value == 0)
__CPROVER_ensures(fijk->face >= 0 && fijk->face <= 19);
/* what callers may rely on (replacement form; the union of the two enforced variants) */
H3Error _h3ToFaceIjk_safe(H3Index h, FaceIJK *fijk)
__CPROVER_requires(__CPROVER_rw_ok(fijk, sizeof(FaceIJK)))
__CPROVER_assigns(*fijk)
__CPROVER_ensures(__CPROVER_return_value == 0 || __CPROVER_return_value == S_ERR_CELL_INVALID)
__CPROVER_ensures((S_BC(h) >= 122) == (__CPROVER_return_value == S_ERR_CELL_INVALID))
__CPROVER_ensures(fijk->face >= 0 && fijk->face <= 19);
void _faceIjkToGeo_frame(const FaceIJK *h, int res, LatLng *g)
__CPROVER_requires(__CPROVER_r_ok(h, sizeof(FaceIJK)) && __CPROVER_rw_ok(g, sizeof(LatLng)) && h->face >= 0 && h->face <= 19 && res >= 0 && res <= 15)
__CPROVER_assigns(*g) __CPROVER_ensures(1);
void _faceIjkToCellBoundary_frame(const FaceIJK *h, int res, int start, int length, CellBoundary *g)
__CPROVER_requires(__CPROVER_r_ok(h, sizeof(FaceIJK)) && __CPROVER_rw_ok(g, sizeof(CellBoundary)) && h->face >= 0 && h->face <= 19 && res >= 0 && res <= 15 &&
                   start == 0 && length == 6)
__CPROVER_assigns(*g) __CPROVER_ensures(g->numVerts >= 0 && g->numVerts <= 10);
void _faceIjkPentToCellBoundary_frame(const FaceIJK *h, int res, int start, int length, CellBoundary *g)
__CPROVER_requires(__CPROVER_r_ok(h, sizeof(FaceIJK)) && __CPROVER_rw_ok(g, sizeof(CellBoundary)) && h->face >= 0 && h->face <= 19 && res >= 0 && res <= 15 &&
                   start == 0 && length == 5)
__CPROVER_assigns(*g) __CPROVER_ensures(g->numVerts >= 0 && g->numVerts <= 10);
/* cellToLatLng / cellToBoundary on arbitrary indexes: E_CELL_INVALID exactly for a base cell number >= 122 with the output untouched, otherwise
 * success; the projection callees are entered with a face in 0..19 and a resolution in 0..15 (their preconditions are checked here) */
H3Error cellToLatLng_contract(H3Index h3, LatLng *g)
__CPROVER_requires(__CPROVER_is_fresh(g, sizeof(LatLng)))
__CPROVER_assigns(*g)
__CPROVER_ensures(__CPROVER_return_value == ((S_BC(h3) >= 122) ? S_ERR_CELL_INVALID : 0));
H3Error cellToBoundary_contract(H3Index h3, CellBoundary *cb)
__CPROVER_requires(__CPROVER_is_fresh(cb, sizeof(CellBoundary)))
__CPROVER_assigns(*cb)
__CPROVER_ensures(__CPROVER_return_value == ((S_BC(h3) >= 122) ? S_ERR_CELL_INVALID : 0))
__CPROVER_ensures(__CPROVER_return_value == 0 ==> (cb->numVerts >= 0 && cb->numVerts <= 10));
#endif
