/* Common prelude for contract headers and harnesses (CBMC only). */
#ifndef H3V_COMMON_H
#define H3V_COMMON_H
#include <stdbool.h>
#include <stddef.h>
#include <stdint.h>
#include "h3api.h"
#include "h3Index.h"
#include "spec.h"
uint64_t nondet_u64(void);
int64_t nondet_i64(void);
int nondet_int(void);
double nondet_double(void);
_Bool nondet_bool(void);
size_t nondet_size(void);
uint32_t nondet_u32(void);
/* ghost witnesses: never assigned by library code, hence universally quantified in every contract */
extern H3Index h3v_w;
extern H3Index h3v_w2;
#endif
