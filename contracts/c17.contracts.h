/* C17: allocation failure is reported cleanly and nothing leaks.
 * Library compiled with -DH3_ALLOC_PREFIX=h3v_ (the library's own switch); stubs/alloc.c is the allocator model:
 * every request may fail; ghost h3v_live = blocks handed out and not yet freed; h3v_failed = a request was refused. */
#ifndef H3V_C17_CONTRACTS_H
#define H3V_C17_CONTRACTS_H
#include "c04.contracts.h"
#include "algos.h"
extern int64_t h3v_live;
extern _Bool h3v_failed;
/* opaque ghost: the documented buffer size maxGridDiskSize(k) (DESIGN 1.6: never a symbolic product in a size) */
extern int64_t h3v_n;

#define C17_PRE (!h3v_failed && h3v_live >= 0 && h3v_live < (1 << 20))
#define C17_POST(ret) (h3v_live == __CPROVER_old(h3v_live) && (h3v_failed ==> (ret) == S_ERR_MEMORY_ALLOC) && (ret) <= 15)

/* ---- callees that do not allocate: frame-only contracts (no allocator state touched) */
H3Error maxGridDiskSize_c17(int k, int64_t *out)
__CPROVER_requires(__CPROVER_is_fresh(out, sizeof(int64_t)))
__CPROVER_requires(h3v_n > 0)
__CPROVER_assigns(*out)
__CPROVER_ensures(k < 0 ==> (__CPROVER_return_value == S_ERR_DOMAIN))
__CPROVER_ensures(k >= 0 ==> (__CPROVER_return_value == S_ERR_SUCCESS && *out == h3v_n));

H3Error gridDiskDistancesUnsafe_c17(H3Index origin, int k, H3Index *out, int *distances)
__CPROVER_requires(k < 0 || __CPROVER_rw_ok(out, sizeof(H3Index) * h3v_n))
__CPROVER_requires(k < 0 || distances == NULL || __CPROVER_rw_ok(distances, sizeof(int) * h3v_n))
__CPROVER_assigns(k >= 0 : __CPROVER_object_whole(out); k >= 0 && distances != NULL : __CPROVER_object_whole(distances))
__CPROVER_ensures(__CPROVER_return_value <= 15 && __CPROVER_return_value != S_ERR_MEMORY_ALLOC)
__CPROVER_ensures(k < 0 ==> __CPROVER_return_value == S_ERR_DOMAIN);

H3Error _gridDiskDistancesInternal_c17(H3Index origin, int k, H3Index *out, int *distances, int64_t maxIdx, int curK)
__CPROVER_requires(maxIdx == h3v_n && __CPROVER_rw_ok(out, sizeof(H3Index) * h3v_n) && __CPROVER_rw_ok(distances, sizeof(int) * h3v_n))
__CPROVER_assigns(__CPROVER_object_whole(out), __CPROVER_object_whole(distances))
__CPROVER_ensures(__CPROVER_return_value <= 15 && __CPROVER_return_value != S_ERR_MEMORY_ALLOC);

/* ---- the C17 functions */
H3Error gridDiskDistances_c17(H3Index origin, int k, H3Index *out, int *distances)
__CPROVER_requires(C17_PRE)
__CPROVER_requires(h3v_n > 0 && h3v_n <= (((int64_t)1) << 40))
__CPROVER_requires(k < 0 || __CPROVER_is_fresh(out, sizeof(H3Index) * h3v_n))
__CPROVER_requires(k < 0 || distances == NULL || __CPROVER_is_fresh(distances, sizeof(int) * h3v_n))
__CPROVER_assigns(k >= 0 : __CPROVER_object_whole(out); k >= 0 && distances != NULL : __CPROVER_object_whole(distances);
                  h3v_live, h3v_failed)
__CPROVER_ensures(C17_POST(__CPROVER_return_value))
__CPROVER_ensures(k < 0 ==> __CPROVER_return_value == S_ERR_DOMAIN);

H3Error gridDisk_c17(H3Index origin, int k, H3Index *out)
__CPROVER_requires(C17_PRE)
__CPROVER_requires(h3v_n > 0 && h3v_n <= (((int64_t)1) << 40))
__CPROVER_requires(k < 0 || __CPROVER_is_fresh(out, sizeof(H3Index) * h3v_n))
__CPROVER_assigns(k >= 0 : __CPROVER_object_whole(out); h3v_live, h3v_failed)
__CPROVER_ensures(C17_POST(__CPROVER_return_value))
__CPROVER_ensures(k < 0 ==> __CPROVER_return_value == S_ERR_DOMAIN);

/* gridDisk as seen by its callers with a fixed 7-slot stack buffer (k == 1) */
H3Error gridDisk_k1_c17(H3Index origin, int k, H3Index *out)
__CPROVER_requires(C17_PRE)
__CPROVER_requires(k == 1 && __CPROVER_rw_ok(out, sizeof(H3Index) * 7))
__CPROVER_assigns(__CPROVER_object_whole(out), h3v_live, h3v_failed)
__CPROVER_ensures(C17_POST(__CPROVER_return_value));

H3Error areNeighborCells_c17(H3Index origin, H3Index destination, int *out)
__CPROVER_requires(C17_PRE)
__CPROVER_requires(__CPROVER_is_fresh(out, sizeof(int)))
__CPROVER_assigns(*out, h3v_live, h3v_failed)
__CPROVER_ensures(C17_POST(__CPROVER_return_value));

/* ================= experimental polyfill (C17, C15 flag/capacity clauses) =================
 * Ownership invariant of a polygon iterator: it owns exactly the block _bboxes (if non-NULL), so
 *   h3v_live == h3v_live0 + (_bboxes != NULL),  h3v_live0 = live blocks at entry of the API call (ghost set by the caller) */
#include "polyfill.h"
#include "polygon.h"
extern int64_t h3v_live0;
#define S_FLAGS_OK(flags) ((((flags) & ~(uint32_t)15) == 0) && (((flags) & 15) < 4))
#define C17_OWN(bboxes) (h3v_live == h3v_live0 + ((bboxes) != NULL ? 1 : 0))
#define C17_IT_INV(cell, error, bboxes)                                                               \
    (C17_OWN(bboxes) && ((cell) == 0 ==> (bboxes) == NULL) && (error) <= 15 && ((error) != 0 ==> (cell) == 0) && \
     (h3v_failed ==> ((cell) == 0 && (error) == S_ERR_MEMORY_ALLOC)))

IterCellsPolygon iterInitPolygon_c17(const GeoPolygon *polygon, int res, uint32_t flags)
__CPROVER_requires(C17_PRE && h3v_live == h3v_live0)
__CPROVER_requires(__CPROVER_is_fresh(polygon, sizeof(GeoPolygon)) && polygon->numHoles >= 0 && polygon->numHoles <= (1 << 20))
__CPROVER_assigns(h3v_live, h3v_failed)
__CPROVER_ensures(__CPROVER_return_value._cellIter.cell != 0 ==> __CPROVER_is_fresh(__CPROVER_return_value._cellIter._bboxes, sizeof(BBox)))
__CPROVER_ensures(C17_IT_INV(__CPROVER_return_value.cell, __CPROVER_return_value.error, __CPROVER_return_value._cellIter._bboxes))
__CPROVER_ensures((__CPROVER_return_value._cellIter.cell == 0 ==> __CPROVER_return_value._cellIter._bboxes == NULL) &&
                  __CPROVER_return_value._cellIter.error <= 15 &&
                  (__CPROVER_return_value._cellIter.error != 0 ==> __CPROVER_return_value._cellIter.cell == 0) &&
                  (h3v_failed ==> __CPROVER_return_value._cellIter.error == S_ERR_MEMORY_ALLOC) &&
                  (__CPROVER_return_value._cellIter.cell != 0 ==>
                   (S_RES(__CPROVER_return_value._cellIter.cell) <= __CPROVER_return_value._cellIter._res && __CPROVER_return_value._cellIter._res <= 15)))
__CPROVER_ensures((res < 0 || res > 15) ==> (__CPROVER_return_value.cell == 0 && __CPROVER_return_value.error == S_ERR_RES_DOMAIN && !h3v_failed))
__CPROVER_ensures((res >= 0 && res <= 15 && !S_FLAGS_OK(flags)) ==>
                  (__CPROVER_return_value.cell == 0 && __CPROVER_return_value.error == S_ERR_OPTION_INVALID && !h3v_failed));

/* the wrapping iterator additionally keeps: inner cell == 0 ==> no block owned; outer cell != 0 ==> inner cell != 0 */
#define C17_IT2_INV(it)                                                                     \
    (C17_IT_INV((it)->cell, (it)->error, (it)->_cellIter._bboxes) &&                         \
     ((it)->_cellIter.cell == 0 ==> (it)->_cellIter._bboxes == NULL) &&                      \
     ((it)->_cellIter.error <= 15) && ((it)->_cellIter.error != 0 ==> (it)->_cellIter.cell == 0) && \
     ((it)->_cellIter.cell != 0 ==> (S_RES((it)->_cellIter.cell) <= (it)->_cellIter._res && (it)->_cellIter._res <= 15)) && \
     (h3v_failed ==> (it)->_cellIter.error == S_ERR_MEMORY_ALLOC))
/* two variants of each contract whose implementation frees the block: *_c17 (with frees clause; enforced on the real code)
 * and *_c17r (same clauses without frees/is_freeable; used when a caller is verified, where only the ghost count matters) */
#define ITERSTEPPOLYGON_CONTRACT(NAME, FREEABLE, FREES)                                   \
void NAME(IterCellsPolygon *iter)                                                         \
__CPROVER_requires(__CPROVER_rw_ok(iter, sizeof(IterCellsPolygon)))                       \
__CPROVER_requires(C17_IT2_INV(iter))                                                     \
FREEABLE                                                                                  \
__CPROVER_assigns(*iter, h3v_live)                                                        \
FREES                                                                                     \
__CPROVER_ensures(C17_IT2_INV(iter));
ITERSTEPPOLYGON_CONTRACT(iterStepPolygon_c17,
    __CPROVER_requires(iter->_cellIter._bboxes == NULL || __CPROVER_is_freeable(iter->_cellIter._bboxes)),
    __CPROVER_frees(iter->_cellIter._bboxes))
ITERSTEPPOLYGON_CONTRACT(iterStepPolygon_c17r, , )

void iterStepChild_frame(IterCellsChildren *it)
__CPROVER_requires(__CPROVER_rw_ok(it, sizeof(IterCellsChildren)))
__CPROVER_assigns(*it)
__CPROVER_ensures(1);
void _iterInitParent_frame(H3Index h, int childRes, IterCellsChildren *it)
__CPROVER_requires(__CPROVER_rw_ok(it, sizeof(IterCellsChildren)))
__CPROVER_assigns(*it)
__CPROVER_ensures((childRes >= S_RES(h) && childRes <= 15 && h != 0) ==> it->h != 0)
__CPROVER_ensures(h == 0 ==> it->h == 0);

#define ITERDESTROYPOLYGON_CONTRACT(NAME, FREEABLE, FREES)                                \
void NAME(IterCellsPolygon *iter)                                                         \
__CPROVER_requires(__CPROVER_rw_ok(iter, sizeof(IterCellsPolygon)))                       \
__CPROVER_requires(C17_OWN(iter->_cellIter._bboxes))                                      \
FREEABLE                                                                                  \
__CPROVER_assigns(*iter, h3v_live)                                                        \
FREES                                                                                     \
__CPROVER_ensures(h3v_live == h3v_live0 && iter->cell == 0 && iter->error == 0 && iter->_cellIter._bboxes == NULL);
ITERDESTROYPOLYGON_CONTRACT(iterDestroyPolygon_c17,
    __CPROVER_requires(iter->_cellIter._bboxes == NULL || __CPROVER_is_freeable(iter->_cellIter._bboxes)),
    __CPROVER_frees(iter->_cellIter._bboxes))
ITERDESTROYPOLYGON_CONTRACT(iterDestroyPolygon_c17r, , )

IterCellsPolygonCompact _iterInitPolygonCompact_c17(const GeoPolygon *polygon, int res, uint32_t flags)
__CPROVER_requires(C17_PRE && h3v_live == h3v_live0)
__CPROVER_requires(__CPROVER_is_fresh(polygon, sizeof(GeoPolygon)) && polygon->numHoles >= 0 && polygon->numHoles <= (1 << 20))
__CPROVER_assigns(h3v_live, h3v_failed)
/* NOTE: is_fresh clauses come first: when the contract replaces a call they ASSIGN the pointer, so every clause that
 * mentions the pointer must be evaluated after them */
__CPROVER_ensures(__CPROVER_return_value.error == 0 ==> __CPROVER_is_fresh(__CPROVER_return_value._bboxes, sizeof(BBox)))
__CPROVER_ensures(C17_OWN(__CPROVER_return_value._bboxes) && __CPROVER_return_value.error <= 15 &&
                  (__CPROVER_return_value.error != 0 ==> (__CPROVER_return_value.cell == 0 && __CPROVER_return_value._bboxes == NULL)) &&
                  (__CPROVER_return_value.error == 0 ==> (__CPROVER_return_value.cell != 0 && !h3v_failed &&
                                                          __CPROVER_return_value._res == res)) &&
                  (h3v_failed ==> __CPROVER_return_value.error == S_ERR_MEMORY_ALLOC))
__CPROVER_ensures((res < 0 || res > 15) ==> (__CPROVER_return_value.error == S_ERR_RES_DOMAIN && !h3v_failed))
__CPROVER_ensures((res >= 0 && res <= 15 && !S_FLAGS_OK(flags)) ==> (__CPROVER_return_value.error == S_ERR_OPTION_INVALID && !h3v_failed));

IterCellsPolygonCompact iterInitPolygonCompact_c17(const GeoPolygon *polygon, int res, uint32_t flags)
__CPROVER_requires(C17_PRE && h3v_live == h3v_live0)
__CPROVER_requires(__CPROVER_is_fresh(polygon, sizeof(GeoPolygon)) && polygon->numHoles >= 0 && polygon->numHoles <= (1 << 20))
__CPROVER_assigns(h3v_live, h3v_failed)
__CPROVER_ensures(__CPROVER_return_value.cell != 0 ==> __CPROVER_is_fresh(__CPROVER_return_value._bboxes, sizeof(BBox)))
__CPROVER_ensures(C17_OWN(__CPROVER_return_value._bboxes) && __CPROVER_return_value.error <= 15 &&
                  (__CPROVER_return_value.cell == 0 ==> __CPROVER_return_value._bboxes == NULL) &&
                  (__CPROVER_return_value.error != 0 ==> __CPROVER_return_value.cell == 0) &&
                  (h3v_failed ==> (__CPROVER_return_value.error == S_ERR_MEMORY_ALLOC && __CPROVER_return_value.cell == 0)) &&
                  (__CPROVER_return_value.cell != 0 ==> (S_RES(__CPROVER_return_value.cell) <= __CPROVER_return_value._res &&
                                                         __CPROVER_return_value._res <= 15 && __CPROVER_return_value._res == res)))
__CPROVER_ensures((res < 0 || res > 15) ==> (__CPROVER_return_value.error == S_ERR_RES_DOMAIN && !h3v_failed))
__CPROVER_ensures((res >= 0 && res <= 15 && !S_FLAGS_OK(flags)) ==> (__CPROVER_return_value.error == S_ERR_OPTION_INVALID && !h3v_failed));

#define ITERSTEPCOMPACT_CONTRACT(NAME, FREEABLE, FREES)                                   \
void NAME(IterCellsPolygonCompact *iter)                                                  \
__CPROVER_requires(__CPROVER_rw_ok(iter, sizeof(IterCellsPolygonCompact)))                \
__CPROVER_requires(C17_OWN(iter->_bboxes) && (iter->cell == 0 ==> iter->_bboxes == NULL)) \
__CPROVER_requires(iter->cell == 0 || !h3v_failed)                                        \
FREEABLE                                                                                  \
__CPROVER_assigns(*iter, h3v_live)                                                        \
FREES                                                                                     \
__CPROVER_ensures(C17_OWN(iter->_bboxes) && (iter->cell == 0 ==> iter->_bboxes == NULL) && iter->error <= 15 && \
                  (iter->error != 0 ==> iter->cell == 0) &&                               \
                  (__CPROVER_old(iter->cell) != 0 ==> iter->error != S_ERR_MEMORY_ALLOC) && \
                  (__CPROVER_old(iter->cell) == 0 ==> (iter->error == __CPROVER_old(iter->error) && iter->cell == 0)) && \
                  (iter->_bboxes == NULL || iter->_bboxes == __CPROVER_old(iter->_bboxes)) && \
                  (iter->cell != 0 ==> (iter->_res == __CPROVER_old(iter->_res) && S_RES(iter->cell) <= iter->_res)));
/* ASSUMED (not enforced: its body is the geometric polygon walk): */
ITERSTEPCOMPACT_CONTRACT(iterStepPolygonCompact_c17,
    __CPROVER_requires(iter->_bboxes == NULL || __CPROVER_is_freeable(iter->_bboxes)),
    __CPROVER_frees(iter->_bboxes))
ITERSTEPCOMPACT_CONTRACT(iterStepPolygonCompact_c17r, , )

void iterDestroyPolygonCompact_c17(IterCellsPolygonCompact *iter)
__CPROVER_requires(__CPROVER_rw_ok(iter, sizeof(IterCellsPolygonCompact)))
__CPROVER_requires(C17_OWN(iter->_bboxes))
__CPROVER_requires(iter->_bboxes == NULL || __CPROVER_is_freeable(iter->_bboxes))
__CPROVER_assigns(*iter, h3v_live)
__CPROVER_frees(iter->_bboxes)
__CPROVER_ensures(h3v_live == h3v_live0 && iter->cell == 0 && iter->error == 0 && iter->_bboxes == NULL);

H3Error cellToChildrenSize_frame(H3Index h, int childRes, int64_t *out)
__CPROVER_requires(__CPROVER_rw_ok(out, sizeof(int64_t)))
__CPROVER_assigns(*out)
__CPROVER_ensures(__CPROVER_return_value <= 15);

void bboxesFromGeoPolygon_frame(const GeoPolygon *polygon, BBox *bboxes)
__CPROVER_requires(__CPROVER_r_ok(polygon, sizeof(GeoPolygon)))
__CPROVER_assigns(__CPROVER_object_whole(bboxes))
__CPROVER_ensures(1);

/* ---- the two API functions */
H3Error polygonToCellsExperimental_c17(const GeoPolygon *polygon, int res, uint32_t flags, int64_t size, H3Index *out)
__CPROVER_requires(C17_PRE && h3v_live == h3v_live0)
/* a buffer of `size` cells (at least one cell, so that the pointer is a valid object also for size <= 0) */
__CPROVER_requires(__CPROVER_is_fresh(out, sizeof(H3Index) * (size > 0 ? size : 1)))
__CPROVER_requires(__CPROVER_is_fresh(polygon, sizeof(GeoPolygon)) && polygon->numHoles >= 0 && polygon->numHoles <= (1 << 20))
__CPROVER_requires(size <= (((int64_t)1) << 40))
__CPROVER_assigns(__CPROVER_object_whole(out), h3v_live, h3v_failed)
__CPROVER_ensures(C17_POST(__CPROVER_return_value))
/* C15 / C12: invalid resolution or flags are reported as such */
__CPROVER_ensures((res < 0 || res > 15) ==> __CPROVER_return_value == S_ERR_RES_DOMAIN)
__CPROVER_ensures((res >= 0 && res <= 15 && !S_FLAGS_OK(flags)) ==> __CPROVER_return_value == S_ERR_OPTION_INVALID);

H3Error maxPolygonToCellsSizeExperimental_c17(const GeoPolygon *polygon, int res, uint32_t flags, int64_t *out)
__CPROVER_requires(C17_PRE && h3v_live == h3v_live0)
__CPROVER_requires(__CPROVER_is_fresh(polygon, sizeof(GeoPolygon)) && __CPROVER_is_fresh(out, sizeof(int64_t)))
__CPROVER_requires(polygon->numHoles >= 0 && polygon->numHoles <= (1 << 20))
__CPROVER_assigns(*out, h3v_live, h3v_failed)
__CPROVER_ensures(C17_POST(__CPROVER_return_value))
__CPROVER_ensures((polygon->geoloop.numVerts != 0 && (res < 0 || res > 15)) ==> __CPROVER_return_value == S_ERR_RES_DOMAIN)
__CPROVER_ensures((polygon->geoloop.numVerts != 0 && res >= 0 && res <= 15 && !S_FLAGS_OK(flags)) ==> __CPROVER_return_value == S_ERR_OPTION_INVALID);

/* ================= legacy polygonToCells (C17; C15 flag clause) ================= */
H3Error validatePolygonFlags_contract(uint32_t flags)
__CPROVER_requires(1) __CPROVER_assigns()
__CPROVER_ensures(__CPROVER_return_value == (S_FLAGS_OK(flags) ? S_ERR_SUCCESS : S_ERR_OPTION_INVALID));

/* frame-only contracts of the geometric callees */
H3Error maxPolygonToCellsSize_frame(const GeoPolygon *geoPolygon, int res, uint32_t flags, int64_t *out)
__CPROVER_requires(__CPROVER_rw_ok(out, sizeof(int64_t)) && h3v_n >= 12 && h3v_n <= (((int64_t)1) << 36))
__CPROVER_assigns(*out)
__CPROVER_ensures(__CPROVER_return_value <= 15 && __CPROVER_return_value != S_ERR_MEMORY_ALLOC)
__CPROVER_ensures(__CPROVER_return_value == 0 ==> *out == h3v_n);
H3Error _getEdgeHexagons_frame(const GeoLoop *geoloop, int64_t numHexagons, int res, int64_t *numSearchHexes, H3Index *search, H3Index *found)
__CPROVER_requires(__CPROVER_rw_ok(numSearchHexes, sizeof(int64_t)) && numHexagons == h3v_n &&
                   __CPROVER_rw_ok(search, sizeof(H3Index) * h3v_n) && __CPROVER_rw_ok(found, sizeof(H3Index) * h3v_n))
__CPROVER_assigns(*numSearchHexes, __CPROVER_object_whole(search), __CPROVER_object_whole(found))
__CPROVER_ensures(__CPROVER_return_value <= 15 && __CPROVER_return_value != S_ERR_MEMORY_ALLOC)
__CPROVER_ensures(*numSearchHexes >= 0 && *numSearchHexes <= h3v_n);
H3Error cellToLatLng_frame(H3Index cell, LatLng *g)
__CPROVER_requires(__CPROVER_rw_ok(g, sizeof(LatLng))) __CPROVER_assigns(*g) __CPROVER_ensures(__CPROVER_return_value <= 15);
bool pointInsidePolygon_frame(const GeoPolygon *geoPolygon, const BBox *bboxes, const LatLng *coord)
__CPROVER_requires(1) __CPROVER_assigns() __CPROVER_ensures(1);

/* with invalid flags: refused before anything is allocated (C15) */
H3Error polygonToCells_badflags(const GeoPolygon *geoPolygon, int res, uint32_t flags, H3Index *out)
__CPROVER_requires(C17_PRE && !S_FLAGS_OK(flags))
__CPROVER_assigns(h3v_live, h3v_failed)
__CPROVER_ensures(__CPROVER_return_value == S_ERR_OPTION_INVALID && h3v_live == __CPROVER_old(h3v_live) && !h3v_failed);
H3Error maxPolygonToCellsSize_badflags(const GeoPolygon *geoPolygon, int res, uint32_t flags, int64_t *out)
__CPROVER_requires(!S_FLAGS_OK(flags))
__CPROVER_assigns()
__CPROVER_ensures(__CPROVER_return_value == S_ERR_OPTION_INVALID);

H3Error polygonToCells_c17(const GeoPolygon *geoPolygon, int res, uint32_t flags, H3Index *out)
__CPROVER_requires(C17_PRE && h3v_live == h3v_live0)
__CPROVER_requires(h3v_n >= 12 && h3v_n <= 16)   /* BOUND: size estimate (scratch/out arrays) of at most 16 cells; the allocator discipline does not depend on it */
__CPROVER_requires(__CPROVER_is_fresh(geoPolygon, sizeof(GeoPolygon)) && geoPolygon->numHoles >= 0 && geoPolygon->numHoles <= (1 << 20))
__CPROVER_requires(__CPROVER_is_fresh(geoPolygon->holes, sizeof(GeoLoop) * (geoPolygon->numHoles > 0 ? geoPolygon->numHoles : 1)))
__CPROVER_requires(__CPROVER_is_fresh(out, sizeof(H3Index) * h3v_n))
__CPROVER_assigns(__CPROVER_object_whole(out), h3v_live, h3v_failed)
__CPROVER_ensures(C17_POST(__CPROVER_return_value));

/* ================= compactCells (C17), BOUNDED stand-in: at most C17_NMAX input cells ================= */
#ifndef C17_NMAX
#define C17_NMAX 2
#endif
H3Error compactCells_c17(const H3Index *h3Set, H3Index *compactedSet, const int64_t numHexes)
__CPROVER_requires(C17_PRE && numHexes >= 0 && numHexes <= C17_NMAX)
__CPROVER_requires(__CPROVER_is_fresh(h3Set, sizeof(H3Index) * C17_NMAX) && __CPROVER_is_fresh(compactedSet, sizeof(H3Index) * C17_NMAX))
__CPROVER_assigns(__CPROVER_object_whole(compactedSet), h3v_live, h3v_failed)
__CPROVER_ensures(C17_POST(__CPROVER_return_value));
#endif
