/* C17: allocation failure is reported cleanly and nothing leaks.
 * Library compiled with -DH3_ALLOC_PREFIX=h3v_ (the library's own switch); stubs/alloc.c is the allocator model:
 * every request may fail; ghost h3v_live = blocks handed out and not yet freed; h3v_failed = a request was refused. */
#ifndef H3V_C17_CONTRACTS_H
#define H3V_C17_CONTRACTS_H
#include "common.h"
#include "algos.h"
extern int64_t h3v_live;
extern _Bool h3v_failed;
/* opaque ghost: the documented buffer size maxGridDiskSize(k) (DESIGN 1.6: never a symbolic product in a size) */
extern int64_t h3v_n;

#define C17_PRE (!h3v_failed && h3v_live >= 0 && h3v_live < (1 << 20))
#define C17_POST(ret) (h3v_live == __CPROVER_old(h3v_live) && (h3v_failed ==> (ret) == S_ERR_MEMORY_ALLOC) && (ret) <= 15)

/* ---- callees that do not allocate: frame-only contracts (no allocator state touched) */
H3Error maxGridDiskSize_c17(int k, int64_t *out)
__CPROVER_requires(__CPROVER_is_fresh(out, sizeof(int64_t)))
__CPROVER_requires(h3v_n > 0)
__CPROVER_assigns(*out)
__CPROVER_ensures(k < 0 ==> (__CPROVER_return_value == S_ERR_DOMAIN))
__CPROVER_ensures(k >= 0 ==> (__CPROVER_return_value == S_ERR_SUCCESS && *out == h3v_n));

H3Error gridDiskDistancesUnsafe_c17(H3Index origin, int k, H3Index *out, int *distances)
__CPROVER_requires(k < 0 || __CPROVER_rw_ok(out, sizeof(H3Index) * h3v_n))
__CPROVER_requires(k < 0 || distances == NULL || __CPROVER_rw_ok(distances, sizeof(int) * h3v_n))
__CPROVER_assigns(k >= 0 : __CPROVER_object_whole(out); k >= 0 && distances != NULL : __CPROVER_object_whole(distances))
__CPROVER_ensures(__CPROVER_return_value <= 15 && __CPROVER_return_value != S_ERR_MEMORY_ALLOC)
__CPROVER_ensures(k < 0 ==> __CPROVER_return_value == S_ERR_DOMAIN);

H3Error _gridDiskDistancesInternal_c17(H3Index origin, int k, H3Index *out, int *distances, int64_t maxIdx, int curK)
__CPROVER_requires(maxIdx == h3v_n && __CPROVER_rw_ok(out, sizeof(H3Index) * h3v_n) && __CPROVER_rw_ok(distances, sizeof(int) * h3v_n))
__CPROVER_assigns(__CPROVER_object_whole(out), __CPROVER_object_whole(distances))
__CPROVER_ensures(__CPROVER_return_value <= 15 && __CPROVER_return_value != S_ERR_MEMORY_ALLOC);

/* ---- the C17 functions */
H3Error gridDiskDistances_c17(H3Index origin, int k, H3Index *out, int *distances)
__CPROVER_requires(C17_PRE)
__CPROVER_requires(h3v_n > 0 && h3v_n <= (((int64_t)1) << 40))
__CPROVER_requires(k < 0 || __CPROVER_is_fresh(out, sizeof(H3Index) * h3v_n))
__CPROVER_requires(k < 0 || distances == NULL || __CPROVER_is_fresh(distances, sizeof(int) * h3v_n))
__CPROVER_assigns(k >= 0 : __CPROVER_object_whole(out); k >= 0 && distances != NULL : __CPROVER_object_whole(distances);
                  h3v_live, h3v_failed)
__CPROVER_ensures(C17_POST(__CPROVER_return_value))
__CPROVER_ensures(k < 0 ==> __CPROVER_return_value == S_ERR_DOMAIN);

H3Error gridDisk_c17(H3Index origin, int k, H3Index *out)
__CPROVER_requires(C17_PRE)
__CPROVER_requires(h3v_n > 0 && h3v_n <= (((int64_t)1) << 40))
__CPROVER_requires(k < 0 || __CPROVER_is_fresh(out, sizeof(H3Index) * h3v_n))
__CPROVER_assigns(k >= 0 : __CPROVER_object_whole(out); h3v_live, h3v_failed)
__CPROVER_ensures(C17_POST(__CPROVER_return_value))
__CPROVER_ensures(k < 0 ==> __CPROVER_return_value == S_ERR_DOMAIN);

/* gridDisk as seen by its callers with a fixed 7-slot stack buffer (k == 1) */
H3Error gridDisk_k1_c17(H3Index origin, int k, H3Index *out)
__CPROVER_requires(C17_PRE)
__CPROVER_requires(k == 1 && __CPROVER_rw_ok(out, sizeof(H3Index) * 7))
__CPROVER_assigns(__CPROVER_object_whole(out), h3v_live, h3v_failed)
__CPROVER_ensures(C17_POST(__CPROVER_return_value));

H3Error areNeighborCells_c17(H3Index origin, H3Index destination, int *out)
__CPROVER_requires(C17_PRE)
__CPROVER_requires(__CPROVER_is_fresh(out, sizeof(int)))
__CPROVER_assigns(*out, h3v_live, h3v_failed)
__CPROVER_ensures(C17_POST(__CPROVER_return_value));
#endif
