/* C05: gridDisk family -- unbounded contract clauses (codes, write bounds, error propagation) and the bounded neighbour-graph checks. */
#ifndef H3V_C05_CONTRACTS_H
#define H3V_C05_CONTRACTS_H
#include "c12.contracts.h"
/* ghost: the ring the inner gridDisk(origin, 1) produces, and its error */
extern H3Index h3v_ring[7];
extern H3Error h3v_ringerr;
H3Error gridDisk_ring_ghost(H3Index origin, int k, H3Index *out)
__CPROVER_requires(k == 1 && __CPROVER_rw_ok(out, 7 * sizeof(H3Index)))
__CPROVER_assigns(__CPROVER_object_whole(out))
__CPROVER_ensures(__CPROVER_return_value == h3v_ringerr)
__CPROVER_ensures(h3v_ringerr == 0 ==> (out[0] == h3v_ring[0] && out[1] == h3v_ring[1] && out[2] == h3v_ring[2] && out[3] == h3v_ring[3] &&
                                        out[4] == h3v_ring[4] && out[5] == h3v_ring[5] && out[6] == h3v_ring[6]));
#define C05_IN_RING(x) (h3v_ring[0] == (x) || h3v_ring[1] == (x) || h3v_ring[2] == (x) || h3v_ring[3] == (x) || h3v_ring[4] == (x) || \
                        h3v_ring[5] == (x) || h3v_ring[6] == (x))
#define C05_SAME_PARENT(a, b) (S_RES(a) >= 2 && (((a) ^ (b)) & ~S_MASK_AFTER(S_RES(a) - 1)) == 0)
H3Error areNeighborCells_contract(H3Index origin, H3Index destination, int *out)
__CPROVER_requires(__CPROVER_is_fresh(out, sizeof(int)) && h3v_ringerr <= 15)
__CPROVER_assigns(*out)
__CPROVER_ensures(__CPROVER_return_value <= 15)
__CPROVER_ensures((S_MODE(origin) != 1 || S_MODE(destination) != 1) ==> __CPROVER_return_value == S_ERR_CELL_INVALID)
__CPROVER_ensures((S_MODE(origin) == 1 && S_MODE(destination) == 1 && origin == destination) ==> (__CPROVER_return_value == 0 && *out == 0))
__CPROVER_ensures((S_MODE(origin) == 1 && S_MODE(destination) == 1 && origin != destination && S_RES(origin) != S_RES(destination)) ==>
                  __CPROVER_return_value == S_ERR_RES_MISMATCH)
__CPROVER_ensures(__CPROVER_return_value == 0 ==> (*out == 0 || *out == 1))
/* a positive answer comes either from the sibling shortcut (same parent) or from membership in the 1-disk of the origin */
__CPROVER_ensures((__CPROVER_return_value == 0 && *out == 1) ==> (C05_SAME_PARENT(origin, destination) || (h3v_ringerr == 0 && C05_IN_RING(destination))))
/* cells with different parents: the answer IS the disk membership (or the disk's error) */
__CPROVER_ensures((S_MODE(origin) == 1 && S_MODE(destination) == 1 && origin != destination && S_RES(origin) == S_RES(destination) &&
                   !C05_SAME_PARENT(origin, destination)) ==>
                  (__CPROVER_return_value == h3v_ringerr && (h3v_ringerr == 0 ==> *out == (C05_IN_RING(destination) ? 1 : 0))));

/* gridDisksUnsafe: h3v_w is a universally quantified cell whose disk fails with the (arbitrary) code h3v_werr */
extern H3Error h3v_werr;
H3Error gridDiskUnsafe_w(H3Index origin, int k, H3Index *out)
__CPROVER_requires(k >= 0 && h3v_werr <= 15)
__CPROVER_assigns(__CPROVER_object_whole(out))
__CPROVER_ensures(__CPROVER_return_value <= 15 && (origin == h3v_w ==> __CPROVER_return_value == h3v_werr));
H3Error maxGridDiskSize_ghost(int k, int64_t *out)
__CPROVER_requires(__CPROVER_rw_ok(out, sizeof(int64_t)) && h3v_n >= 1)
__CPROVER_assigns(*out)
__CPROVER_ensures(k < 0 ==> __CPROVER_return_value == S_ERR_DOMAIN)
__CPROVER_ensures(k >= 0 ==> (__CPROVER_return_value == 0 && *out == h3v_n));
H3Error gridDisksUnsafe_contract(H3Index *h3Set, int length, int k, H3Index *out)
__CPROVER_requires(h3v_n >= 1 && h3v_n <= (1 << 20) && length <= (1 << 20) && h3v_werr <= 15)
__CPROVER_requires(__CPROVER_is_fresh(h3Set, sizeof(H3Index) * (length > 0 ? length : 1)))
__CPROVER_requires(__CPROVER_is_fresh(out, sizeof(H3Index) * h3v_n * (length > 0 ? length : 1)))
__CPROVER_assigns(__CPROVER_object_whole(out))
__CPROVER_ensures(__CPROVER_return_value <= 15)
__CPROVER_ensures(k < 0 ==> __CPROVER_return_value == S_ERR_DOMAIN)
/* success only if the disk of EVERY input cell succeeded */
__CPROVER_ensures((k >= 0 && __CPROVER_return_value == 0 && 0 <= h3v_g && h3v_g < length && h3Set[h3v_g] == h3v_w) ==> h3v_werr == 0);
/* bounded stand-in of the same clause: at most 3 input cells, segment size 7 (k == 1) */
H3Error gridDisksUnsafe_b3(H3Index *h3Set, int length, int k, H3Index *out)
__CPROVER_requires(h3v_n == 7 && length >= 0 && length <= 3 && h3v_werr <= 15)
__CPROVER_requires(__CPROVER_is_fresh(h3Set, sizeof(H3Index) * 3) && __CPROVER_is_fresh(out, sizeof(H3Index) * 7 * 3))
__CPROVER_assigns(__CPROVER_object_whole(out))
__CPROVER_ensures(__CPROVER_return_value <= 15)
__CPROVER_ensures(k < 0 ==> __CPROVER_return_value == S_ERR_DOMAIN)
__CPROVER_ensures((k >= 0 && __CPROVER_return_value == 0 && 0 <= h3v_g && h3v_g < length && h3Set[h3v_g] == h3v_w) ==> h3v_werr == 0);
#endif
