/* C04: parent/children form an exact tree partition.  (Also used by C03, C06, C12, C13.) */
#ifndef H3V_C04_CONTRACTS_H
#define H3V_C04_CONTRACTS_H
#include "common.h"
#include "iterators.h"
#include "mathExtensions.h"

/* isPentagon: for EVERY 64-bit h (no validity assumed) */
int isPentagon_contract(H3Index h)
__CPROVER_requires(1)
__CPROVER_assigns()
__CPROVER_ensures(__CPROVER_return_value == (S_IS_PENT(h) ? 1 : 0));

/* 7^e for the exponents the library uses */
int64_t _ipow_contract(int64_t base, int64_t exp)
__CPROVER_requires(base == 7 && exp >= 0 && exp <= 15)
__CPROVER_assigns()
__CPROVER_ensures(__CPROVER_return_value == S_P7C(exp));

H3Error cellToParent_contract(H3Index h, int parentRes, H3Index *out)
__CPROVER_requires(__CPROVER_is_fresh(out, sizeof(H3Index)))
__CPROVER_assigns(*out)
__CPROVER_ensures((parentRes < 0 || parentRes > 15) ==>
                  (__CPROVER_return_value == S_ERR_RES_DOMAIN && *out == __CPROVER_old(*out)))
__CPROVER_ensures((parentRes >= 0 && parentRes <= 15 && parentRes > S_RES(h)) ==>
                  (__CPROVER_return_value == S_ERR_RES_MISMATCH && *out == __CPROVER_old(*out)))
__CPROVER_ensures((parentRes >= 0 && parentRes <= S_RES(h)) ==>
                  (__CPROVER_return_value == S_ERR_SUCCESS &&
                   /* exactly: resolution field := parentRes, digits parentRes+1..res(h) := 7, nothing else */
                   *out == (S_SETRES(h, parentRes) | S_MASK_BETWEEN(parentRes, S_RES(h))) &&
                   /* which for well-formed input (digits after res(h) all 7) is the documented digit truncation */
                   (S_ALL7_AFTER(h, S_RES(h)) ==> *out == S_PARENT(h, parentRes))))
/* closure (C01): the parent of a valid cell is a valid cell */
__CPROVER_ensures((__CPROVER_return_value == S_ERR_SUCCESS && S_VALID_CELL(h)) ==> S_VALID_CELL(*out));

H3Error cellToChildrenSize_contract(H3Index h, int childRes, int64_t *out)
__CPROVER_requires(__CPROVER_is_fresh(out, sizeof(int64_t)))
__CPROVER_assigns(*out)
__CPROVER_ensures((childRes < S_RES(h) || childRes > 15) ==>
                  (__CPROVER_return_value == S_ERR_RES_DOMAIN && *out == __CPROVER_old(*out)))
__CPROVER_ensures((childRes >= S_RES(h) && childRes <= 15) ==>
                  (__CPROVER_return_value == S_ERR_SUCCESS && *out == S_NCHILD(h, childRes)));

H3Error cellToCenterChild_contract(H3Index h, int childRes, H3Index *child)
__CPROVER_requires(__CPROVER_is_fresh(child, sizeof(H3Index)))
__CPROVER_assigns(*child)
__CPROVER_ensures((childRes < S_RES(h) || childRes > 15) ==>
                  (__CPROVER_return_value == S_ERR_RES_DOMAIN && *child == __CPROVER_old(*child)))
__CPROVER_ensures((childRes >= S_RES(h) && childRes <= 15) ==>
                  (__CPROVER_return_value == S_ERR_SUCCESS && *child == S_CENTER_CHILD(h, childRes)))
__CPROVER_ensures((__CPROVER_return_value == S_ERR_SUCCESS && S_VALID_CELL(h)) ==> S_IS_DESC(*child, h, childRes))
/* the centre child is the least descendant (h3v_w: universally quantified ghost witness) */
__CPROVER_ensures((__CPROVER_return_value == S_ERR_SUCCESS && S_VALID_CELL(h) && S_IS_DESC(h3v_w, h, childRes)) ==> h3v_w >= *child);

/* ---- child iterator -------------------------------------------------------------- */
void _iterInitParent_contract(H3Index h, int childRes, IterCellsChildren *iter)
__CPROVER_requires(__CPROVER_is_fresh(iter, sizeof(IterCellsChildren)))
__CPROVER_assigns(*iter)
__CPROVER_ensures((childRes < S_RES(h) || childRes > 15 || h == 0) ==> iter->h == 0)
__CPROVER_ensures((childRes >= S_RES(h) && childRes <= 15 && h != 0) ==>
                  (iter->h == S_CENTER_CHILD(h, childRes) && iter->h != 0 && iter->_parentRes == S_RES(h) &&
                   sf_iter_wf(iter->h, iter->_parentRes, iter->_skipDigit) &&
                   sf_pos(iter->h, iter->_parentRes) == 0));

void iterStepChild_contract(IterCellsChildren *it)
__CPROVER_requires(__CPROVER_rw_ok(it, sizeof(IterCellsChildren)))
__CPROVER_requires(sf_iter_wf(it->h, it->_parentRes, it->_skipDigit))
__CPROVER_assigns(*it)
__CPROVER_ensures(__CPROVER_old(it->h) == 0 ==> it->h == 0)
/* exhausted exactly when the current iterate was the last descendant */
__CPROVER_ensures(__CPROVER_old(it->h) != 0 ==>
                  ((it->h == 0) == (sf_pos(__CPROVER_old(it->h), __CPROVER_old(it->_parentRes)) ==
                                    sf_nchild_anc(__CPROVER_old(it->h), __CPROVER_old(it->_parentRes)) - 1)))
/* otherwise: next legal descendant of the same ancestor, one position further */
__CPROVER_ensures((__CPROVER_old(it->h) != 0 && it->h != 0) ==>
                  (it->_parentRes == __CPROVER_old(it->_parentRes) &&
                   S_RES(it->h) == S_RES(__CPROVER_old(it->h)) &&
                   sf_same_anc(it->h, __CPROVER_old(it->h), it->_parentRes) &&
                   it->h > __CPROVER_old(it->h) &&
                   sf_iter_wf(it->h, it->_parentRes, it->_skipDigit) &&
                   sf_pos(it->h, it->_parentRes) == sf_pos(__CPROVER_old(it->h), it->_parentRes) + 1));
/* the same step, bit-level only (no position arithmetic), for ALL resolutions at once: the result is the
 * least legal descendant above the current one (h3v_w: universally quantified witness), or 0 if none */
void iterStepChild_bits_contract(IterCellsChildren *it)
__CPROVER_requires(__CPROVER_rw_ok(it, sizeof(IterCellsChildren)))
__CPROVER_requires(sf_iter_wf(it->h, it->_parentRes, it->_skipDigit))
__CPROVER_assigns(*it)
__CPROVER_ensures(__CPROVER_old(it->h) == 0 ==> it->h == 0)
__CPROVER_ensures((__CPROVER_old(it->h) != 0 && it->h != 0) ==>
                  (it->_parentRes == __CPROVER_old(it->_parentRes) &&
                   S_RES(it->h) == S_RES(__CPROVER_old(it->h)) &&
                   sf_same_anc(it->h, __CPROVER_old(it->h), it->_parentRes) &&
                   it->h > __CPROVER_old(it->h) &&
                   sf_iter_wf(it->h, it->_parentRes, it->_skipDigit)))
/* nothing legal lies strictly between the old and the new iterate (resp. above the old one when exhausted) */
__CPROVER_ensures((__CPROVER_old(it->h) != 0 &&
                   S_RES(h3v_w) == S_RES(__CPROVER_old(it->h)) &&
                   sf_same_anc(h3v_w, __CPROVER_old(it->h), __CPROVER_old(it->_parentRes)) &&
                   sf_wfdesc(h3v_w, __CPROVER_old(it->_parentRes)) &&
                   h3v_w > __CPROVER_old(it->h)) ==> (it->h != 0 && h3v_w >= it->h));
#endif
