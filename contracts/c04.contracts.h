/* C04: parent/children form an exact tree partition.  (Also used by C03, C06, C12, C13.) */
#ifndef H3V_C04_CONTRACTS_H
#define H3V_C04_CONTRACTS_H
#include "common.h"
#include "iterators.h"
#include "mathExtensions.h"

/* isPentagon: for EVERY 64-bit h (no validity assumed) */
int isPentagon_contract(H3Index h)
__CPROVER_requires(1)
__CPROVER_assigns()
__CPROVER_ensures(__CPROVER_return_value == (S_IS_PENT(h) ? 1 : 0));

/* 7^e for the exponents the library uses */
int64_t _ipow_contract(int64_t base, int64_t exp)
__CPROVER_requires(base == 7 && exp >= 0 && exp <= 15)
__CPROVER_assigns()
__CPROVER_ensures(__CPROVER_return_value == S_P7C(exp));

H3Error cellToParent_contract(H3Index h, int parentRes, H3Index *out)
__CPROVER_requires(__CPROVER_is_fresh(out, sizeof(H3Index)))
__CPROVER_assigns(*out)
__CPROVER_ensures((parentRes < 0 || parentRes > 15) ==>
                  (__CPROVER_return_value == S_ERR_RES_DOMAIN && *out == __CPROVER_old(*out)))
__CPROVER_ensures((parentRes >= 0 && parentRes <= 15 && parentRes > S_RES(h)) ==>
                  (__CPROVER_return_value == S_ERR_RES_MISMATCH && *out == __CPROVER_old(*out)))
__CPROVER_ensures((parentRes >= 0 && parentRes <= S_RES(h)) ==>
                  (__CPROVER_return_value == S_ERR_SUCCESS &&
                   /* exactly: resolution field := parentRes, digits parentRes+1..res(h) := 7, nothing else */
                   *out == (S_SETRES(h, parentRes) | S_MASK_BETWEEN(parentRes, S_RES(h))) &&
                   /* which for well-formed input (digits after res(h) all 7) is the documented digit truncation */
                   (S_ALL7_AFTER(h, S_RES(h)) ==> *out == S_PARENT(h, parentRes))))
/* closure (C01): the parent of a valid cell is a valid cell */
__CPROVER_ensures((__CPROVER_return_value == S_ERR_SUCCESS && S_VALID_CELL(h)) ==> S_VALID_CELL(*out));

H3Error cellToChildrenSize_contract(H3Index h, int childRes, int64_t *out)
__CPROVER_requires(__CPROVER_is_fresh(out, sizeof(int64_t)))
__CPROVER_assigns(*out)
__CPROVER_ensures((childRes < S_RES(h) || childRes > 15) ==>
                  (__CPROVER_return_value == S_ERR_RES_DOMAIN && *out == __CPROVER_old(*out)))
__CPROVER_ensures((childRes >= S_RES(h) && childRes <= 15) ==>
                  (__CPROVER_return_value == S_ERR_SUCCESS && *out == S_NCHILD(h, childRes)));

H3Error cellToCenterChild_contract(H3Index h, int childRes, H3Index *child)
__CPROVER_requires(__CPROVER_is_fresh(child, sizeof(H3Index)))
__CPROVER_assigns(*child)
__CPROVER_ensures((childRes < S_RES(h) || childRes > 15) ==>
                  (__CPROVER_return_value == S_ERR_RES_DOMAIN && *child == __CPROVER_old(*child)))
__CPROVER_ensures((childRes >= S_RES(h) && childRes <= 15) ==>
                  (__CPROVER_return_value == S_ERR_SUCCESS && *child == S_CENTER_CHILD(h, childRes)))
__CPROVER_ensures((__CPROVER_return_value == S_ERR_SUCCESS && S_VALID_CELL(h)) ==> S_IS_DESC(*child, h, childRes))
/* the centre child is the least descendant (h3v_w: universally quantified ghost witness) */
__CPROVER_ensures((__CPROVER_return_value == S_ERR_SUCCESS && S_VALID_CELL(h) && S_IS_DESC(h3v_w, h, childRes)) ==> h3v_w >= *child);

/* ---- child iterator -------------------------------------------------------------- */
void _iterInitParent_contract(H3Index h, int childRes, IterCellsChildren *iter)
__CPROVER_requires(__CPROVER_is_fresh(iter, sizeof(IterCellsChildren)))
__CPROVER_assigns(*iter)
__CPROVER_ensures((childRes < S_RES(h) || childRes > 15 || h == 0) ==> iter->h == 0)
__CPROVER_ensures((childRes >= S_RES(h) && childRes <= 15 && h != 0) ==>
                  (iter->h == S_CENTER_CHILD(h, childRes) && iter->h != 0 && iter->_parentRes == S_RES(h) &&
                   sf_iter_wf(iter->h, iter->_parentRes, iter->_skipDigit) &&
                   sf_pos(iter->h, iter->_parentRes) == 0));

/* full step contract (used when callers are verified): bit-level facts plus the position arithmetic.
 * Enforced in two parts: iterStepChild_bits_contract on the real code (job c04.iterStepChild.bits) and the
 * composition with the rank lemma (job c04.iterStepChild.compose). */
#define ITERSTEP_ENS_FULL(oh, opr, nh, npr, nskip)                                                        \
    (((oh) == 0 ==> (nh) == 0) &&                                                                          \
     /* exhausted exactly when the current iterate was the last descendant */                             \
     ((oh) != 0 ==> (((nh) == 0) == (sf_pos(oh, opr) == sf_nchild_anc(oh, opr) - 1))) &&                   \
     /* otherwise: next legal descendant of the same ancestor, one position further */                    \
     (((oh) != 0 && (nh) != 0) ==>                                                                         \
      ((npr) == (opr) && sf_same_anc(nh, oh, npr) && (nh) > (oh) && sf_iter_wf(nh, npr, nskip) &&          \
       sf_pos(nh, npr) == sf_pos(oh, npr) + 1 && sf_pos(nh, npr) < sf_nchild_anc(oh, opr))))
void iterStepChild_contract(IterCellsChildren *it)
__CPROVER_requires(__CPROVER_rw_ok(it, sizeof(IterCellsChildren)))
__CPROVER_requires(sf_iter_wf(it->h, it->_parentRes, it->_skipDigit))
__CPROVER_assigns(*it)
__CPROVER_ensures(ITERSTEP_ENS_FULL(__CPROVER_old(it->h), __CPROVER_old(it->_parentRes), it->h, it->_parentRes, it->_skipDigit));

/* the same step, bit-level only (no position arithmetic), for ALL resolutions at once: the result is the
 * least legal descendant above the current one (h3v_w: universally quantified witness), or 0 if none */
void iterStepChild_bits_contract(IterCellsChildren *it)
__CPROVER_requires(__CPROVER_rw_ok(it, sizeof(IterCellsChildren)))
__CPROVER_requires(sf_iter_wf(it->h, it->_parentRes, it->_skipDigit))
__CPROVER_assigns(*it)
__CPROVER_ensures(__CPROVER_old(it->h) == 0 ==> it->h == 0)
__CPROVER_ensures((__CPROVER_old(it->h) != 0 && it->h != 0) ==>
                  (it->_parentRes == __CPROVER_old(it->_parentRes) &&
                   S_RES(it->h) == S_RES(__CPROVER_old(it->h)) &&
                   sf_same_anc(it->h, __CPROVER_old(it->h), it->_parentRes) &&
                   it->h > __CPROVER_old(it->h) &&
                   sf_iter_wf(it->h, it->_parentRes, it->_skipDigit)))
/* closed form of the step: the spec successor (sf_next) of the old iterate, 0 when there is none */
__CPROVER_ensures(__CPROVER_old(it->h) != 0 ==> it->h == sf_next(__CPROVER_old(it->h), __CPROVER_old(it->_parentRes)))
/* nothing legal lies strictly between the old and the new iterate (resp. above the old one when exhausted) */
__CPROVER_ensures((__CPROVER_old(it->h) != 0 &&
                   S_RES(h3v_w) == S_RES(__CPROVER_old(it->h)) &&
                   sf_same_anc(h3v_w, __CPROVER_old(it->h), __CPROVER_old(it->_parentRes)) &&
                   sf_wfdesc(h3v_w, __CPROVER_old(it->_parentRes)) &&
                   h3v_w > __CPROVER_old(it->h)) ==> (it->h != 0 && h3v_w >= it->h));
/* cellToChildren: h3v_g (index) and h3v_v (value) are universally quantified ghosts, never assigned by library code:
 * "whenever slot g holds the value v, v is ..." is the same as "slot g is ..." but mentions the array only once */
extern int64_t h3v_g;
extern H3Index h3v_v;
#define C04_VALID_ARGS(h, childRes) ((childRes) >= S_RES(h) && (childRes) <= 15 && (h) != 0)
H3Error cellToChildren_contract(H3Index h, int childRes, H3Index *children)
/* the documented buffer: cellToChildrenSize(h, childRes) cells (nothing is required when that call fails) */
__CPROVER_requires(((childRes) >= S_RES(h) && (childRes) <= 15) ==>
                   __CPROVER_is_fresh(children, sizeof(H3Index) * sf_nchild(h, childRes)))
__CPROVER_assigns(C04_VALID_ARGS(h, childRes) : __CPROVER_object_whole(children))
__CPROVER_ensures(__CPROVER_return_value == S_ERR_SUCCESS)
/* slot g (any 0 <= g < size) holds the legal descendant of h at childRes whose rank in index order is g */
__CPROVER_ensures((C04_VALID_ARGS(h, childRes) && 0 <= h3v_g && h3v_g < sf_nchild(h, childRes) && children[h3v_g] == h3v_v) ==>
                  (S_RES(h3v_v) == childRes &&
                   sf_same_anc(h3v_v, S_CENTER_CHILD(h, childRes), S_RES(h)) &&
                   sf_wfdesc(h3v_v, S_RES(h)) &&
                   sf_pos(h3v_v, S_RES(h)) == h3v_g &&
                   /* hence: valid parent ==> the slot is a valid cell whose parent at res(h) is h (C01 closure, C04) */
                   (S_VALID_CELL(h) ==> sf_is_desc(h3v_v, h, childRes)) &&
                   (h3v_g == 0 ==> h3v_v == S_CENTER_CHILD(h, childRes))));
#endif
