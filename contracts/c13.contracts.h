/* C13: cellToChildPos / childPosToCell are inverse bijections in child order. */
#ifndef H3V_C13_CONTRACTS_H
#define H3V_C13_CONTRACTS_H
#include "c04.contracts.h"

H3Error cellToChildPos_contract(H3Index child, int parentRes, int64_t *out)
__CPROVER_requires(__CPROVER_is_fresh(out, sizeof(int64_t)))
__CPROVER_assigns(*out)
__CPROVER_ensures((parentRes < 0 || parentRes > 15) ==>
                  (__CPROVER_return_value == S_ERR_RES_DOMAIN && *out == __CPROVER_old(*out)))
__CPROVER_ensures((parentRes >= 0 && parentRes <= 15 && parentRes > S_RES(child)) ==>
                  (__CPROVER_return_value == S_ERR_RES_MISMATCH && *out == __CPROVER_old(*out)))
/* digits below the parent legal (true for every valid cell): the rank in child order */
__CPROVER_ensures((parentRes >= 0 && parentRes <= S_RES(child) && sf_wfdesc(child, parentRes)) ==>
                  (__CPROVER_return_value == S_ERR_SUCCESS && *out == sf_pos(child, parentRes) &&
                   *out >= 0 && *out < sf_nchild_anc(child, parentRes)))
/* a digit 7, or the deleted digit 1 below a pentagon: rejected */
__CPROVER_ensures((parentRes >= 0 && parentRes <= S_RES(child) && !sf_wfdesc(child, parentRes)) ==>
                  __CPROVER_return_value == S_ERR_CELL_INVALID);

#define C13_ARGS_OK(childPos, parent, childRes) \
    ((childRes) >= S_RES(parent) && (childRes) <= 15 && (childPos) >= 0 && (childPos) < sf_nchild(parent, childRes))
H3Error childPosToCell_contract(int64_t childPos, H3Index parent, int childRes, H3Index *child)
__CPROVER_requires(__CPROVER_is_fresh(child, sizeof(H3Index)))
__CPROVER_assigns(*child)
__CPROVER_ensures((childRes < 0 || childRes > 15) ==>
                  (__CPROVER_return_value == S_ERR_RES_DOMAIN && *child == __CPROVER_old(*child)))
__CPROVER_ensures((childRes >= 0 && childRes <= 15 && childRes < S_RES(parent)) ==>
                  (__CPROVER_return_value == S_ERR_RES_MISMATCH && *child == __CPROVER_old(*child)))
__CPROVER_ensures((childRes >= S_RES(parent) && childRes <= 15 && (childPos < 0 || childPos >= sf_nchild(parent, childRes))) ==>
                  (__CPROVER_return_value == S_ERR_DOMAIN && *child == __CPROVER_old(*child)))
/* in range: the legal descendant of parent at childRes whose rank is childPos */
__CPROVER_ensures(C13_ARGS_OK(childPos, parent, childRes) ==>
                  (__CPROVER_return_value == S_ERR_SUCCESS && S_RES(*child) == childRes &&
                   sf_same_anc(*child, S_CENTER_CHILD(parent, childRes), S_RES(parent)) &&
                   sf_wfdesc(*child, S_RES(parent)) &&
                   sf_pos(*child, S_RES(parent)) == childPos &&
                   (S_VALID_CELL(parent) ==> sf_is_desc(*child, parent, childRes))));
/* all resolutions at once, safety only (memory, arithmetic, narrowing conversions); the functional contracts above are per pair */
H3Error childPosToCell_safe(int64_t childPos, H3Index parent, int childRes, H3Index *child)
__CPROVER_requires(__CPROVER_is_fresh(child, sizeof(H3Index)))
__CPROVER_assigns(*child)
__CPROVER_ensures(__CPROVER_return_value <= 15);
H3Error cellToChildPos_safe(H3Index child, int parentRes, int64_t *out)
__CPROVER_requires(__CPROVER_is_fresh(out, sizeof(int64_t)))
__CPROVER_assigns(*out)
__CPROVER_ensures(__CPROVER_return_value <= 15 && __CPROVER_return_value != S_ERR_FAILED);
/* error clauses for ALL cells at once (partial contracts: precondition = the resolution argument is out of the valid range) */
H3Error cellToChildPos_badres(H3Index child, int parentRes, int64_t *out)
__CPROVER_requires(__CPROVER_is_fresh(out, sizeof(int64_t)) && (parentRes < 0 || parentRes > S_RES(child)))
__CPROVER_assigns(*out)
__CPROVER_ensures(__CPROVER_return_value == ((parentRes < 0 || parentRes > 15) ? S_ERR_RES_DOMAIN : S_ERR_RES_MISMATCH) && *out == __CPROVER_old(*out));
H3Error childPosToCell_badres(int64_t childPos, H3Index parent, int childRes, H3Index *child)
__CPROVER_requires(__CPROVER_is_fresh(child, sizeof(H3Index)) && (childRes < S_RES(parent) || childRes > 15))
__CPROVER_assigns(*child)
__CPROVER_ensures(__CPROVER_return_value == ((childRes < 0 || childRes > 15) ? S_ERR_RES_DOMAIN : S_ERR_RES_MISMATCH) && *child == __CPROVER_old(*child));
#endif
