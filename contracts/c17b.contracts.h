/* Enforcing the contract of iterStepPolygonCompact itself (the hierarchical polygon walk): every geometric callee is a
 * frame-only contract (its VALUE is irrelevant to the ownership/error-code clauses), the walk loops get loop contracts. */
#ifndef H3V_C17B_CONTRACTS_H
#define H3V_C17B_CONTRACTS_H
#include "c17.contracts.h"
#include "bbox.h"
bool pointInsidePolygon_fr(const GeoPolygon *geoPolygon, const BBox *bboxes, const LatLng *coord) __CPROVER_requires(1) __CPROVER_assigns() __CPROVER_ensures(1);
bool bboxContains_fr(const BBox *bbox, const LatLng *point) __CPROVER_requires(1) __CPROVER_assigns() __CPROVER_ensures(1);
bool bboxContainsBBox_fr(const BBox *a, const BBox *b) __CPROVER_requires(1) __CPROVER_assigns() __CPROVER_ensures(1);
bool bboxOverlapsBBox_fr(const BBox *a, const BBox *b) __CPROVER_requires(1) __CPROVER_assigns() __CPROVER_ensures(1);
CellBoundary bboxToCellBoundary_fr(const BBox *bbox) __CPROVER_requires(1) __CPROVER_assigns() __CPROVER_ensures(1);
bool cellBoundaryInsidePolygon_fr(const GeoPolygon *geoPolygon, const BBox *bboxes, const CellBoundary *boundary, const BBox *boundaryBBox)
__CPROVER_requires(1) __CPROVER_assigns() __CPROVER_ensures(1);
bool cellBoundaryCrossesPolygon_fr(const GeoPolygon *geoPolygon, const BBox *bboxes, const CellBoundary *boundary, const BBox *boundaryBBox)
__CPROVER_requires(1) __CPROVER_assigns() __CPROVER_ensures(1);
H3Error cellToBBox_fr(H3Index cell, BBox *out, bool coverChildren)
__CPROVER_requires(__CPROVER_rw_ok(out, sizeof(BBox))) __CPROVER_assigns(*out)
__CPROVER_ensures(__CPROVER_return_value <= 15 && __CPROVER_return_value != S_ERR_MEMORY_ALLOC);
H3Error cellToBoundary_fr(H3Index cell, CellBoundary *cb)
__CPROVER_requires(__CPROVER_rw_ok(cb, sizeof(CellBoundary))) __CPROVER_assigns(*cb)
__CPROVER_ensures(__CPROVER_return_value <= 15 && __CPROVER_return_value != S_ERR_MEMORY_ALLOC);
H3Error cellToLatLng_fr(H3Index cell, LatLng *g)
__CPROVER_requires(__CPROVER_rw_ok(g, sizeof(LatLng))) __CPROVER_assigns(*g)
__CPROVER_ensures(__CPROVER_return_value <= 15 && __CPROVER_return_value != S_ERR_MEMORY_ALLOC);
H3Error latLngToCell_fr(const LatLng *g, int res, H3Index *out)
__CPROVER_requires(__CPROVER_rw_ok(out, sizeof(H3Index))) __CPROVER_assigns(*out)
__CPROVER_ensures(__CPROVER_return_value <= 15 && __CPROVER_return_value != S_ERR_MEMORY_ALLOC);
/* cellToCenterChild with the local output pointer (the is_fresh version is C04's; same clauses) */
H3Error cellToCenterChild_rw(H3Index h, int childRes, H3Index *child)
__CPROVER_requires(__CPROVER_rw_ok(child, sizeof(H3Index)))
__CPROVER_assigns(*child)
__CPROVER_ensures((childRes < S_RES(h) || childRes > 15) ==> __CPROVER_return_value == S_ERR_RES_DOMAIN)
__CPROVER_ensures((childRes >= S_RES(h) && childRes <= 15) ==> (__CPROVER_return_value == S_ERR_SUCCESS && *child == S_CENTER_CHILD(h, childRes)));

/* the enforced version: additionally needs the polygon the iterator points to (the _c17 / _c17r variants used by callers say nothing
 * about it because their callers never dereference it) */
void iterStepPolygonCompact_full(IterCellsPolygonCompact *iter)
__CPROVER_requires(__CPROVER_rw_ok(iter, sizeof(IterCellsPolygonCompact)))
__CPROVER_requires(C17_OWN(iter->_bboxes) && (iter->cell == 0 ==> iter->_bboxes == NULL))
__CPROVER_requires(iter->cell == 0 || !h3v_failed)
__CPROVER_requires(iter->_bboxes == NULL || __CPROVER_is_freeable(iter->_bboxes))
__CPROVER_requires(iter->cell == 0 || (iter->_bboxes != NULL && iter->_res >= 0 && iter->_res <= 15 && S_RES(iter->cell) <= iter->_res &&
                                       __CPROVER_r_ok(iter->_polygon, sizeof(GeoPolygon)) &&
                                       (iter->_polygon->geoloop.numVerts == 0 || __CPROVER_r_ok(iter->_polygon->geoloop.verts, sizeof(LatLng)))))
__CPROVER_assigns(*iter, h3v_live)
__CPROVER_frees(iter->_bboxes)
__CPROVER_ensures(C17_OWN(iter->_bboxes) && (iter->cell == 0 ==> iter->_bboxes == NULL) && iter->error <= 15 &&
                  (iter->error != 0 ==> iter->cell == 0) &&
                  (__CPROVER_old(iter->cell) != 0 ==> iter->error != S_ERR_MEMORY_ALLOC) &&
                  (__CPROVER_old(iter->cell) == 0 ==> (iter->error == __CPROVER_old(iter->error) && iter->cell == 0)) &&
                  (iter->_bboxes == NULL || iter->_bboxes == __CPROVER_old(iter->_bboxes)) &&
                  (iter->cell != 0 ==> (iter->_res == __CPROVER_old(iter->_res) && S_RES(iter->cell) <= iter->_res)));
#endif
