"""Job table: every CBMC run the driver knows, and per-property metadata."""
JOBS = []
PROPS = {}
SOURCE_COMMITS = []
# properties not (yet) claimed, with the reason that goes to MANIFEST.not_applicable
UNCLAIMED = {}


def J(**kw):
    kw.setdefault("tier", "quick")
    JOBS.append(kw)
    return kw


# ------------------------------------------------------------------ C01
PROPS["C01"] = dict(
    level="proof",
    explanation="isValidCell(h) <=> documented layout for all 2^64 h, by an enforced contract on the real isValidCell; "
                "closure clause as S_VALID_CELL postconditions of the producers under contract",
    trusted_base=[], not_decided=[], assumptions=[],
    level_text="Unbounded proof: the contract 'result != 0 <=> documented layout' is enforced on the real isValidCell for all 2^64 "
               "inputs (one SAT query, no sampling); the closure clause is carried as S_VALID_CELL postconditions in the contracts of "
               "the bit-level producers.",
    level_note="Trusts CBMC/goto-instrument/MiniSat and the x86-64 machine model; closure for producers whose validity depends on "
               "floating point (latLngToCell, localIjToCell) is not decided.")

J(name="c01.isValidCell", props=["C01", "C12", "C18"], harness="c01_isValidCell.c", entry="h_isValidCell",
  enforce=["isValidCell"], replay=dict(fn="isValidCell", args=["h"]))

# ------------------------------------------------------------------ C20
PROPS["C20"] = dict(
    level="proof",
    explanation="library half of the round trip proved by enforced contracts on h3ToString/stringToH3 (size guard, frame, exactly one "
                "formatter/parser call with format \"%lx\" on the full 64-bit value, return codes); libc half assumed",
    trusted_base=["ASSUMED contracts of sprintf/sscanf for the format \"%lx\" (contracts/c20.contracts.h): lowercase unpadded hex, "
                  "1..16 digits + NUL; the parser inverts the formatter and stores nothing unless it returns 1"],
    not_decided=["that the C library's sprintf(\"%lx\") really prints lowercase unpadded hexadecimal and sscanf inverts it (assumed)"],
    assumptions=["PRIx64 expands to \"lx\" on this platform (checked: the call-site precondition compares the real format bytes)"],
    level_text="Unbounded proof of every clause that is about h3 code: for all 2^64 h and all buffer sizes, h3ToString refuses sz<17 "
               "without touching the buffer (frame condition) and otherwise makes exactly one formatter call with format %lx, the full "
               "64-bit h and the caller's buffer; stringToH3 makes one parser call and returns its value or E_FAILED leaving *out "
               "untouched; the round trip is a lemma composed from the contracts.",
    level_note="The behaviour of libc's sprintf/sscanf for \"%lx\" is an assumed contract (its preconditions are checked at the real "
               "call sites). Trusts CBMC/DFCC/MiniSat.")
J(name="c20.h3ToString", props=["C20", "C12", "C18"], harness="c20.c", entry="h_h3ToString",
  enforce=["h3ToString"], replace=["h3v_sprintf_lx"], replay=dict(fn="h3ToString", args=["h", "sz"]))
J(name="c20.stringToH3", props=["C20", "C12", "C18"], harness="c20.c", entry="h_stringToH3",
  enforce=["stringToH3"], replace=["h3v_sscanf_lx"], replay=dict(fn="stringToH3", args=[]))
J(name="c20.roundtrip", props=["C20"], harness="c20.c", entry="h_roundtrip",
  replace=["h3ToString", "stringToH3"], replay=dict(fn="h3ToString", args=["h", "=17"]))
