"""Job table: every CBMC run the driver knows, and per-property metadata."""
JOBS = []
PROPS = {}
SOURCE_COMMITS = []
# properties not (yet) claimed, with the reason that goes to MANIFEST.not_applicable
UNCLAIMED = {}


def J(**kw):
    kw.setdefault("tier", "quick")
    JOBS.append(kw)
    return kw


# ------------------------------------------------------------------ C01
PROPS["C01"] = dict(
    level="proof",
    explanation="isValidCell(h) <=> documented layout for all 2^64 h, by an enforced contract on the real isValidCell; "
                "closure clause as S_VALID_CELL postconditions of the producers under contract",
    trusted_base=[], not_decided=[], assumptions=[],
    level_text="Unbounded proof: the contract 'result != 0 <=> documented layout' is enforced on the real isValidCell for all 2^64 "
               "inputs (one SAT query, no sampling); the closure clause is carried as S_VALID_CELL postconditions in the contracts of "
               "the bit-level producers.",
    level_note="Trusts CBMC/goto-instrument/MiniSat and the x86-64 machine model; closure for producers whose validity depends on "
               "floating point (latLngToCell, localIjToCell) is not decided.")

J(name="c01.isValidCell", props=["C01", "C12", "C18"], harness="c01_isValidCell.c", entry="h_isValidCell",
  enforce=["isValidCell"], replay=dict(fn="isValidCell", args=["h"]))
