"""Job table: every CBMC run the driver knows, and per-property metadata."""
JOBS = []
NO_CONV = ["--bounds-check", "--pointer-check", "--pointer-overflow-check", "--signed-overflow-check", "--undefined-shift-check",
           "--div-by-zero-check"]   # without --conversion-check: CBMC rewrites (int)((x >> k) & 7) inside side-file invariants into
                                     # ((int)(x >> k)) & 7 and then flags its own inner cast (spurious; the same macros pass in ensures clauses)
PROPS = {}
SOURCE_COMMITS = []   # hook commits in /repo (none: contracts live in /verif); fix: commits are listed in known_findings.txt
# properties not (yet) claimed, with the reason that goes to MANIFEST.not_applicable
UNCLAIMED = {}


# Guard against attaching a loop contract to the wrong loop after an edit of the function (CBMC numbers loops by position): the source
# line of loop n of f must still contain these tokens, otherwise the job ends UNDECIDED ("extraction"), never with a violation.
LOOP_HEADS = {
    ("cellToParent", 0): ["for", "parentRes + 1", "childRes"],
    ("maxPolygonToCellsSizeExperimental", 0): ["while", "iter._res > 0"],
    ("maxPolygonToCellsSizeExperimental", 1): ["for", "iter.cell", "iterStepPolygonCompact"],
    ("gridRingUnsafe", 0): ["for", "ring", "< k"],
    ("gridRingUnsafe", 1): ["for", "pos", "< k"],
    ("gridRingUnsafe", 2): ["for", "direction", "< 6"],
    ("gridDiskDistancesUnsafe", 0): ["while", "ring <= k"],
    ("polygonToCellsExperimental", 0): ["for", "iter.cell", "iterStepPolygon"],
    ("_gridDiskDistancesInternal", 0): ["while", "out[off]"],
    ("_gridDiskDistancesInternal", 1): ["for", "i < 6"],
    ("gridPathCells", 0): ["for", "n <= distance"],
    ("uncompactCells", 0): ["for", "IterCellsChildren iter"],
    ("uncompactCells", 1): ["for", "j < numCompacted"],
    ("uncompactCellsSize", 0): ["for", "i < numCompacted"],
    ("getIcosahedronFaces", 0): ["for", "i < faceCount"],
    ("getIcosahedronFaces", 1): ["while", "out[pos]"],
    ("getIcosahedronFaces", 2): ["for", "i < vertexCount"],
    ("cellToChildren", 0): ["for", "IterCellsChildren iter", "iter.h"],
    ("_h3ToFaceIjk", 0): ["while", "_adjustOverageClassII"],
}


def J(**kw):
    kw.setdefault("tier", "quick")
    JOBS.append(kw)
    return kw


# ------------------------------------------------------------------ C01
PROPS["C01"] = dict(
    level="proof",
    explanation="isValidCell(h) <=> documented layout for all 2^64 h, by an enforced contract on the real isValidCell; "
                "closure clause as S_VALID_CELL postconditions of the producers under contract",
    trusted_base=[], not_decided=[], assumptions=[],
    level_text="Unbounded proof: the contract 'result != 0 <=> documented layout' is enforced on the real isValidCell for all 2^64 "
               "inputs (one SAT query, no sampling); the closure clause is carried as S_VALID_CELL postconditions in the contracts of "
               "the bit-level producers.",
    level_note="Trusts CBMC/goto-instrument/MiniSat and the x86-64 machine model; closure for producers whose validity depends on "
               "floating point (latLngToCell, localIjToCell) is not decided.")

J(name="c01.isValidCell", props=["C01", "C12", "C18"], harness="c01_isValidCell.c", entry="h_isValidCell",
  enforce=["isValidCell"], replay=dict(fn="isValidCell", args=["h"]))

# ------------------------------------------------------------------ C20
PROPS["C20"] = dict(
    level="proof",
    explanation="contracts on the BUFFER CONTENTS, enforced on the real h3ToString/stringToH3: size guard and frame (sz < 17: nothing written), "
                "the buffer holds the lowercase unpadded hex text of h; the hex text of any value parses back to it; text that cannot start a "
                "hex number is an error without result; libc's sprintf/sscanf for \"%lx\" enter by ASSUMED contracts whose preconditions "
                "(format string, 64-bit operand, 17 writable bytes) are checked at the real call sites",
    trusted_base=["ASSUMED contracts of sprintf/sscanf for the format \"%lx\" (contracts/c20.contracts.h): lowercase unpadded hex, "
                  "1..16 digits + NUL; the parser inverts the formatter and stores nothing unless it returns 1"],
    not_decided=["that the C library's sprintf(\"%lx\") really prints lowercase unpadded hexadecimal and sscanf inverts it (assumed)"],
    assumptions=["PRIx64 expands to \"lx\" on this platform (checked: the call-site precondition compares the real format bytes)"],
    level_text="Unbounded proof of every clause that is about h3 code: for all 2^64 h and all buffer sizes, h3ToString refuses sz<17 "
               "without touching the buffer (frame condition) and otherwise makes exactly one formatter call with format %lx, the full "
               "64-bit h and the caller's buffer; stringToH3 makes one parser call and returns its value or E_FAILED leaving *out "
               "untouched; the round trip is a lemma composed from the contracts.",
    level_note="The behaviour of libc's sprintf/sscanf for \"%lx\" is an assumed contract (its preconditions are checked at the real "
               "call sites). Trusts CBMC/DFCC/MiniSat.")
J(name="c20.h3ToString", props=["C20", "C12", "C18"], harness="c20.c", entry="h_h3ToString", unwind=20,
  enforce=["h3ToString"], replace=["h3v_sprintf_lx"], optional_replace=["h3v_sprintf_lx"], replay=dict(fn="h3ToString", args=["h", "sz"]))
J(name="c20.stringToH3", props=["C20", "C12", "C18"], harness="c20.c", entry="h_stringToH3", unwind=20,
  enforce=["stringToH3"], replace=["h3v_sscanf_lx"], optional_replace=["h3v_sscanf_lx"], replay=dict(fn="stringToH3", args=[]))
J(name="c20.roundtrip", props=["C20"], harness="c20.c", entry="h_roundtrip",
  replace=["h3ToString", "stringToH3"], replay=dict(fn="h3ToString", args=["h", "=17"]))

# ------------------------------------------------------------------ C04
PROPS["C04"] = dict(
    level="proof",
    explanation="enforced contracts on cellToParent, cellToChildrenSize, cellToCenterChild, _iterInitParent, iterStepChild (all resolutions at "
                "once, bit level: the step yields the least legal descendant above the current one, equal to the closed-form spec successor), "
                "the rank lemma by induction over digit levels (pos(next(y)) == pos(y)+1, range, monotonicity), their composition into the "
                "full iterator contract, and cellToChildren's loop contract (slot g holds the descendant of rank g) per resolution pair",
    trusted_base=[], assumptions=[],
    not_decided=["the centre child's centre POINT coincides with the parent's (spherical geometry; CBMC has no libm semantics)"],
    level_text="Unbounded proof: contracts are enforced on the real functions for all 2^64 inputs / all resolutions; loops are closed by loop "
               "contracts or by unwinding to the width of the 4-bit resolution field with unwinding assertions (complete). The induction "
               "over digit levels and the instantiation of lemma instances are the only steps composed on paper.",
    level_note="Trusts CBMC/DFCC/CaDiCaL; cellToChildren jobs run with bounds and pointer checks only (the other generic checks do not "
               "terminate on the large invariant); geometry clause not decided.")
UNW = dict(unwind=17, cbmc=[])   # digit loops: at most 15 iterations (4-bit resolution field); unwinding assertions make it complete
J(name="c04.isPentagon", props=["C04", "C12", "C18"], harness="c04.c", entry="h_isPentagon",
  enforce=["isPentagon"], unwind=17, replay=dict(fn="isPentagon", args=["h"]))
J(name="c04.ipow", props=["C04", "C13"], harness="c04.c", entry="h_ipow", enforce=["_ipow"], unwind=6)
J(name="c04.cellToParent", props=["C04", "C12", "C18", "C01"], harness="c04.c", entry="h_cellToParent",
  enforce=["cellToParent"], fallback_unwind=17,
  loops=[dict(fn="cellToParent", loop=0, locals=["i", "parentH", "parentRes", "childRes", "h"],
              assigns="i, parentH",
              inv="parentRes + 1 <= i && i <= childRes + 1 && childRes <= 15 && parentRes >= 0 && "
                  "parentH == (S_SETRES(h, parentRes) | S_MASK_BETWEEN(parentRes, i - 1))",
              dec="childRes + 1 - i")],
  replay=dict(fn="cellToParent", args=["h", "parentRes"]))
J(name="c04.cellToChildrenSize", props=["C04", "C12", "C18"], harness="c04.c", entry="h_cellToChildrenSize",
  enforce=["cellToChildrenSize"], replace=["isPentagon", "_ipow"],
  replay=dict(fn="cellToChildrenSize", args=["h", "childRes"]))
J(name="c04.cellToCenterChild", props=["C04", "C12", "C18", "C01"], harness="c04.c", entry="h_cellToCenterChild",
  enforce=["cellToCenterChild"], replay=dict(fn="cellToCenterChild", args=["h", "childRes"]))

J(name="c04.iterInitParent", props=["C04", "C12", "C18"], harness="c04.c", entry="h_iterInitParent",
  enforce=["_iterInitParent"], replace=["isPentagon"], replay=dict(fn="cellToChildren", args=["h", "childRes"]))
J(name="c04.iterStepChild.bits", props=["C04", "C12", "C18"], harness="c04.c", entry="h_iterStepChild",
  enforce=["iterStepChild/iterStepChild_bits_contract"], unwind=18, timeout=1800)

J(name="c04.iterStepChild.compose", props=["C04"], harness="c04.c", entry="h_iterStepChild_compose",
  defs=["H3V_ABSTRACT_POSN=1"], replace=["iterStepChild/iterStepChild_bits_contract"], timeout=900,
  lemma_assumed="rank lemma (c),(d),(a) instantiated at the old iterate; proved by jobs lemma.rank.*")
C04_CC = "S_CENTER_CHILD(h, childRes)"
# the invariant is a very large expression; CBMC's generic check instrumentation (conversion/shift/overflow checks on every
# sub-term of the spec macros) does not terminate on it, so these jobs keep the memory-safety checks only
C04_LOOPS = dict(checks=["--no-standard-checks", "--bounds-check", "--pointer-check"], loops=[dict(fn="cellToChildren", loop=0, locals=["i", "iter", "children", "h", "childRes"],
              assigns="i, iter, __CPROVER_object_whole(children)",
              inv="(!C04_VALID_ARGS(h, childRes) ==> (iter.h == 0 && i == 0)) && "
                  "(C04_VALID_ARGS(h, childRes) ==> ("
                  "0 <= i && i <= S_NCHILD(h, childRes) && "
                  "(iter.h == 0 ==> i == S_NCHILD(h, childRes)) && "
                  "(iter.h != 0 ==> (S_ITER_WF(iter.h, iter._parentRes, iter._skipDigit) && iter._parentRes == S_RES(h) && "
                  "S_SAME_ANC(iter.h, S_CENTER_CHILD(h, childRes), S_RES(h)) && S_POSM(iter.h, S_RES(h)) == i && i < S_NCHILD(h, childRes))) && "
                  "((0 <= h3v_g && h3v_g < i && children[h3v_g] == h3v_v) ==> (S_SAME_ANC(h3v_v, S_CENTER_CHILD(h, childRes), S_RES(h)) && "
                  "S_WFDESC(h3v_v, S_RES(h)) && S_POSM(h3v_v, S_RES(h)) == h3v_g))))",
              )])
J(name="c04.cellToChildren.sym", props=["C04"], harness="c04.c", entry="h_cellToChildren", tier="never",
  enforce=["cellToChildren"], replace=["_iterInitParent", "iterStepChild"], timeout=1200,
  replay=dict(fn="cellToChildren", args=["h", "childRes"]), **C04_LOOPS)
PAIRS = [(pr, cr) for pr in range(16) for cr in range(pr, 16)]
for (pr, cr) in PAIRS:
    J(name="c04.cellToChildren.%d.%d" % (pr, cr), props=["C04", "C12", "C18", "C01"], harness="c04.c", entry="h_cellToChildren_pair",
      defs=["PR=%d" % pr, "CR=%d" % cr], enforce=["cellToChildren"], replace=["_iterInitParent", "iterStepChild"], timeout=900,
      pair=(pr, cr), replay=dict(fn="cellToChildren", args=["h", "childRes"]), **C04_LOOPS)
J(name="lemma.rank.base", props=["C04", "C13"], harness="lemmas.c", entry="h_lemma_base")
for lev in range(1, 16):
    J(name="lemma.rank.unfold.%d" % lev, props=["C04", "C13"], harness="lemmas.c", entry="h_lemma_unfold",
      defs=["LEVEL=%d" % lev], timeout=600)
    J(name="lemma.rank.step.%d" % lev, props=["C04", "C13"], harness="lemmas.c", entry="h_lemma_step",
      defs=["LEVEL=%d" % lev], timeout=600)

# ------------------------------------------------------------------ C13
PROPS["C13"] = dict(
    level="proof",
    explanation="enforced contracts: cellToChildPos returns the spec rank sf_pos of the child (or the documented error), childPosToCell returns "
                "the legal descendant whose rank is the given position (or the documented error); one complete proof per (parentRes, "
                "childRes) pair; the rank lemma (injective, monotone, range [0,count)) makes the two mutually inverse and ties position i "
                "to the i-th element of cellToChildren (C04 contract: slot g has rank g)",
    trusted_base=[], assumptions=[], not_decided=[],
    level_text="Unbounded proof per resolution pair (136 pairs are the whole domain; quick runs a seed-chosen subset plus the boundary pairs, "
               "thorough all): all 2^64 cells and all 2^64 positions symbolic, loops unwound to the resolution-field width with unwinding "
               "assertions.",
    level_note="Trusts CBMC/DFCC/CaDiCaL. The inverse-bijection statement is the composition of the two contracts with the rank lemma "
               "(injectivity), composed on paper.")
J(name="c13.cellToChildPos.sym", props=["C13"], harness="c13.c", entry="h_cellToChildPos", tier="never",
  enforce=["cellToChildPos"], unwind=17, timeout=1200)
J(name="c13.childPosToCell.sym", props=["C13"], harness="c13.c", entry="h_childPosToCell", tier="never",
  enforce=["childPosToCell"], unwind=17, timeout=1200)
for (pr, cr) in PAIRS:
    J(name="c13.cellToChildPos.%d.%d" % (pr, cr), props=["C13", "C12", "C18"], harness="c13.c", entry="h_cellToChildPos",
      defs=["PR=%d" % pr, "CR=%d" % cr], enforce=["cellToChildPos"], unwind=17, timeout=900, pair=(pr, cr),
      replay=dict(fn="cellToChildPos", args=["child", "parentRes"]))
    J(name="c13.childPosToCell.%d.%d" % (pr, cr), props=["C13", "C12", "C18", "C01"], harness="c13.c", entry="h_childPosToCell",
      defs=["PR=%d" % pr, "CR=%d" % cr], enforce=["childPosToCell"], unwind=17, timeout=900, pair=(pr, cr),
      replay=dict(fn="childPosToCell", args=["pos", "parent", "childRes"]))

# ------------------------------------------------------------------ C17
PROPS["C17"] = dict(
    level="other",
    explanation="per function: an enforced contract over the ghost allocator state (live-block count unchanged on every exit; a refused "
                "request implies E_MEMORY_ALLOC; CBMC's free() preconditions give no double/invalid free), every allocation "
                "nondeterministically failing, callees replaced by their own contracts. Unbounded for gridDiskDistances, gridDisk, "
                "areNeighborCells, polygonToCellsExperimental, maxPolygonToCellsSizeExperimental and the polygon-iterator operations "
                "(init, step, destroy). compactCells and legacy polygonToCells are NOT decided: no terminating contract job exists for them "
                "(compactCells with <= 2 cells: > 30 min; polygonToCells: out of memory).",
    trusted_base=["stubs/alloc.c: the fault-injecting allocator model behind the library's H3_ALLOC_PREFIX switch (malloc/calloc/realloc/free "
                  "delegating to CBMC's built-in heap model)",
                  "iterStepPolygonCompact's contract (ownership of the bbox block is kept or released; never E_MEMORY_ALLOC) is ASSUMED: its "
                  "body is the geometric polygon walk"],
    not_decided=["compactCells (all clauses)",
                 "polygonToCells: the defect found there (inner gridDisk error dropped) was found by reading, confirmed and repaired through the "
                 "native fault-injecting replay (replay case polygonToCells_alloc), not by a discharged obligation",
                 "'results identical with the default allocator' is structural (H3_MEMORY is a token paste; no function reads allocator state)"],
    assumptions=[],
    level_text="Unbounded proof for five of the seven named functions (all inputs, every allocation may fail); compactCells and "
               "polygonToCells are not decided. Hence category 'other', not 'proof'.",
    level_note="Trusts the allocator model in stubs/alloc.c and CBMC's heap model; callees that do not allocate are replaced by frame-only contracts.")
J(name="c17.gridDiskDistances", props=["C17", "C18"], harness="c17.c", entry="h_gridDiskDistances", alloc=True,
  enforce=["gridDiskDistances/gridDiskDistances_c17"],
  replace=["maxGridDiskSize/maxGridDiskSize_c17", "gridDiskDistancesUnsafe/gridDiskDistancesUnsafe_c17",
           "_gridDiskDistancesInternal/_gridDiskDistancesInternal_c17"], timeout=900)
J(name="c17.gridDisk", props=["C17", "C18"], harness="c17.c", entry="h_gridDisk", alloc=True,
  enforce=["gridDisk/gridDisk_c17"], replace=["gridDiskDistances/gridDiskDistances_c17"])
J(name="c17.gridDisk.k1", props=["C17"], harness="c17.c", entry="h_gridDisk_k1", alloc=True,
  enforce=["gridDisk/gridDisk_k1_c17"], replace=["gridDiskDistances/gridDiskDistances_c17"])
J(name="c17.areNeighborCells", props=["C17", "C18"], harness="c17.c", entry="h_areNeighborCells", alloc=True,
  enforce=["areNeighborCells/areNeighborCells_c17"], replace=["gridDisk/gridDisk_k1_c17"], unwind=17,
  replay=dict(fn="areNeighborCells_alloc", args=["a", "b"]))


def select(prop, tier, seed, sel):
    """quick tier: per-pair families are cut down to the boundary pairs plus a seed-chosen sample."""
    if tier != "quick":
        return sel
    import random
    rnd = random.Random(seed)
    keep = set([(0, 0), (15, 15), (0, 1), (14, 15), (0, 2), (7, 9)])
    deep = [(pr, cr) for (pr, cr) in PAIRS if 3 <= cr - pr <= 8]   # deeper pairs take minutes each: thorough tier only
    if prop in ("C04", "C13"):
        keep.update(rnd.sample(deep, 4))
    else:
        keep = set([(0, 0), (15, 15), (0, 1), (7, 9)])   # aggregate properties: the per-pair families belong to C04/C13
    out = []
    for j in sel:
        if "pair" in j and tuple(j["pair"]) not in keep:
            continue
        out.append(j)
    return out

C17_IT = "(h3v_live == h3v_live0 + (iter._cellIter._bboxes != (void*)0 ? 1 : 0) && " \
         "(iter.cell == 0 ==> iter._cellIter._bboxes == (void*)0) && iter.error <= 15 && (iter.error != 0 ==> iter.cell == 0) && " \
         "(h3v_failed ==> (iter.cell == 0 && iter.error == 13)) && " \
         "(iter._cellIter.cell == 0 ==> iter._cellIter._bboxes == (void*)0) && iter._cellIter.error <= 15 && " \
         "(iter._cellIter.error != 0 ==> iter._cellIter.cell == 0) && (h3v_failed ==> iter._cellIter.error == 13) && " \
         "(iter._cellIter.cell != 0 ==> (S_RES(iter._cellIter.cell) <= iter._cellIter._res && iter._cellIter._res <= 15)))"
J(name="c17.polygonToCellsExperimental", props=["C17", "C15", "C18"], harness="c17.c", entry="h_polygonToCellsExperimental", alloc=True,
  enforce=["polygonToCellsExperimental/polygonToCellsExperimental_c17"],
  replace=["iterInitPolygon/iterInitPolygon_c17", "iterStepPolygon/iterStepPolygon_c17r", "iterDestroyPolygon/iterDestroyPolygon_c17r"],
  loops=[dict(fn="polygonToCellsExperimental", loop=0, locals=["i", "iter", "size", "out"],
              assigns="i, iter, h3v_live, __CPROVER_object_whole(out)",
              inv="0 <= i && i <= size && " + C17_IT)])
J(name="c17.maxPolygonToCellsSizeExperimental", props=["C17", "C15", "C18"], harness="c17.c", entry="h_maxPolygonToCellsSizeExperimental",
  alloc=True, object_bits=12, enforce=["maxPolygonToCellsSizeExperimental/maxPolygonToCellsSizeExperimental_c17"],
  exclude=[(r"maxPolygonToCellsSizeExperimental\.overflow.*\*out \+ childrenSize",
            "the running total of children counts stays below the number of cells only because the iterator yields disjoint cells; "
            "that is a geometric fact outside this technique")],
  replace=["_iterInitPolygonCompact/_iterInitPolygonCompact_c17", "iterStepPolygonCompact/iterStepPolygonCompact_c17r",
           "cellToChildrenSize/cellToChildrenSize_frame"],
  loops=[dict(fn="maxPolygonToCellsSizeExperimental", loop=0, locals=["iter", "polygonBBoxAreaKm2"],
              assigns="iter._res", inv="iter._res >= 0 && iter._res <= 15 && iter._bboxes == __CPROVER_loop_entry(iter._bboxes) && "
              "iter.cell == __CPROVER_loop_entry(iter.cell) && iter.error == __CPROVER_loop_entry(iter.error)", dec="iter._res"),
         dict(fn="maxPolygonToCellsSizeExperimental", loop=1, locals=["iter", "childrenSize", "out"],
              assigns="iter, childrenSize, *out, h3v_live",
              inv="h3v_live == h3v_live0 + (iter._bboxes != (void*)0 ? 1 : 0) && "
                  "(iter.cell == 0 ==> iter._bboxes == (void*)0) && iter.error <= 15 && (iter.error != 0 ==> iter.cell == 0) && !h3v_failed && iter.error != 13")])
J(name="c17.iterInitPolygonCompact", props=["C17", "C15"], harness="c17_static.c", entry="h_iterInitPolygonCompact", alloc=True, object_bits=12,
  include_src="polyfill.c", src_macro="H3V_POLYFILL_C",
  enforce=["_iterInitPolygonCompact/_iterInitPolygonCompact_c17"], replace=["bboxesFromGeoPolygon/bboxesFromGeoPolygon_frame"])
J(name="c17.iterDestroyPolygonCompact", props=["C17"], harness="c17.c", entry="h_iterDestroyPolygonCompact", alloc=True,
  enforce=["iterDestroyPolygonCompact/iterDestroyPolygonCompact_c17"])
J(name="c17.iterDestroyPolygon", props=["C17"], harness="c17.c", entry="h_iterDestroyPolygon", alloc=True,
  enforce=["iterDestroyPolygon/iterDestroyPolygon_c17"], replace=["iterDestroyPolygonCompact/iterDestroyPolygonCompact_c17"])
J(name="c17.iterStepPolygon", props=["C17"], harness="c17.c", entry="h_iterStepPolygon", alloc=True,
  enforce=["iterStepPolygon/iterStepPolygon_c17"],
  replace=["iterStepPolygonCompact/iterStepPolygonCompact_c17", "iterStepChild/iterStepChild_frame", "_iterInitParent/_iterInitParent_frame"])
J(name="c17.iterInitPolygon", props=["C17", "C15"], harness="c17.c", entry="h_iterInitPolygon", alloc=True,
  enforce=["iterInitPolygon/iterInitPolygon_c17"],
  replace=["iterInitPolygonCompact/iterInitPolygonCompact_c17", "_iterInitParent/_iterInitParent_frame"])


J(name="c17.iterInitParent.frame", props=["C17"], harness="c17.c", entry="h_iterInitParent_frame",
  enforce=["_iterInitParent/_iterInitParent_frame"], unwind=17, alloc=True)

# ------------------------------------------------------------------ C10
PROPS["C10"] = dict(
    level="proof",
    explanation="index algebra of directed edges by enforced contracts for all 2^64 inputs: isValidDirectedEdge <=> (mode 2, direction 1..6, "
                "valid origin, not direction 1 on a pentagon); origin/destination decoding; originToDirectedEdges slot by slot; "
                "cellsToDirectedEdge succeeds exactly with a direction whose neighbour step yields the destination (the step itself is an "
                "uninterpreted deterministic function here); the round trip is a lemma composed from the contracts",
    trusted_base=["the single neighbour step h3NeighborRotations is abstracted as an uninterpreted deterministic function of (origin, direction); "
                  "its concrete behaviour belongs to C05"],
    not_decided=["that a direction is found exactly for geometrically adjacent cells (C05's neighbour relation)",
                 "directedEdgeToBoundary returns the shared boundary stretch; edgeLengthRads/Km/M value (spherical geometry)"],
    assumptions=[],
    level_text="Unbounded proof of the index-algebra clauses (all 2^64 candidate edge indexes, all (origin, destination) pairs) on the real "
               "functions; geometry clauses are not decidable with this technique and are named in clauses_not_decided.",
    level_note="h3NeighborRotations is replaced by an uninterpreted-function contract (determinism only). Trusts CBMC/DFCC/CaDiCaL.")
J(name="c10.isValidDirectedEdge", props=["C10", "C12", "C18"], harness="c10.c", entry="h_isValidDirectedEdge",
  enforce=["isValidDirectedEdge"], replace=["isValidCell", "isPentagon"], replay=dict(fn="isValidDirectedEdge", args=["edge"]))
J(name="c10.getDirectedEdgeOrigin", props=["C10", "C12", "C18"], harness="c10.c", entry="h_getDirectedEdgeOrigin",
  enforce=["getDirectedEdgeOrigin"], replay=dict(fn="getDirectedEdgeOrigin", args=["edge"]))
J(name="c10.getDirectedEdgeDestination", props=["C10", "C12", "C18"], harness="c10.c", entry="h_getDirectedEdgeDestination",
  enforce=["getDirectedEdgeDestination"], replace=["h3NeighborRotations/h3NeighborRotations_uf"])
J(name="c10.directedEdgeToCells", props=["C10", "C12", "C18"], harness="c10.c", entry="h_directedEdgeToCells",
  enforce=["directedEdgeToCells"], replace=["h3NeighborRotations/h3NeighborRotations_uf"])
J(name="c10.originToDirectedEdges", props=["C10", "C12", "C18"], harness="c10.c", entry="h_originToDirectedEdges",
  enforce=["originToDirectedEdges"], replace=["isPentagon"], unwind=8, replay=dict(fn="originToDirectedEdges", args=["origin"]))
J(name="c10.cellsToDirectedEdge", props=["C10", "C12", "C18"], harness="c10.c", entry="h_cellsToDirectedEdge",
  enforce=["cellsToDirectedEdge"], replace=["h3NeighborRotations/h3NeighborRotations_uf", "isPentagon"], unwind=8,
  replay=dict(fn="cellsToDirectedEdge", args=["origin", "destination"]))
J(name="c10.roundtrip", props=["C10"], harness="c10.c", entry="h_edge_roundtrip",
  replace=["cellsToDirectedEdge", "isValidDirectedEdge", "getDirectedEdgeOrigin", "getDirectedEdgeDestination"])

# ------------------------------------------------------------------ C03 (counting clauses)
PROPS["C03"] = dict(
    level="other",
    explanation="counting clauses by contracts: getNumCells == 2+120*7^r (error outside 0..15), pentagonCount == 12, res0CellCount == 122, "
                "getRes0Cells / getPentagons slot by slot; pure lemmas: the descendant counts of the 122 base cells sum to 2+120*7^r, valid "
                "cells are exactly the legal descendants of the base cells (so their number is that sum, using C13's bijection), valid "
                "pentagons are exactly the twelve cells getPentagons returns. The centre round trip is NOT decided.",
    trusted_base=["the step 'a set in bijection with [0,n) has n elements' is on paper"],
    not_decided=["latLngToCell(cellToLatLng(h)) == h for every valid cell (spherical geometry over libm; CBMC has no semantics for it)"],
    assumptions=[],
    level_text="Unbounded proof of the enumeration/counting clauses (contracts on the real functions plus loop-free lemmas for all "
               "resolutions); the cell<->centre round-trip clause cannot be decided by this technique and is not claimed.",
    level_note="Half of the statement (the geometric round trip) is outside the technique: category 'other'. Trusts CBMC/DFCC/CaDiCaL.")
J(name="c03.isBaseCellPentagon", props=["C03", "C01"], harness="c03.c", entry="h_isBaseCellPentagon", enforce=["_isBaseCellPentagon"])
J(name="c03.getNumCells", props=["C03", "C12", "C18"], harness="c03.c", entry="h_getNumCells", enforce=["getNumCells"], replace=["_ipow"])
J(name="c03.pentagonCount", props=["C03", "C12", "C18"], harness="c03.c", entry="h_counts", enforce=["pentagonCount"])
J(name="c03.res0CellCount", props=["C03", "C12", "C18"], harness="c03.c", entry="h_counts", enforce=["res0CellCount"])
J(name="c03.getRes0Cells", props=["C03", "C12", "C18", "C01"], harness="c03.c", entry="h_getRes0Cells", enforce=["getRes0Cells"], unwind=124, timeout=900)
J(name="c03.getPentagons", props=["C03", "C12", "C18", "C01"], harness="c03.c", entry="h_getPentagons", enforce=["getPentagons"],
  replace=["_isBaseCellPentagon"], unwind=124, timeout=1200)
J(name="c03.lemma.counts", props=["C03"], harness="c03.c", entry="h_lemma_counts")
# ------------------------------------------------------------------ C06 (uncompact side)
PROPS["C06"] = dict(
    level="other",
    explanation="uncompact side by contracts with loop contracts (no bound on the number of cells): uncompactCells never writes outside the "
                "numOut slots it is given (E_MEMORY_BOUNDS first), returns only SUCCESS / E_RES_MISMATCH / E_MEMORY_BOUNDS, success implies "
                "every input cell admits the target resolution; uncompactCellsSize rejects a cell that is finer than the target "
                "(E_RES_MISMATCH) and otherwise returns at least each cell's child count. compactCells itself is not decided.",
    trusted_base=[], assumptions=["uncompactCellsSize is verified for at most 10^6 input cells (above ~1.9*10^6 coarse cells the running sum can overflow: finding F5 in DESIGN)"],
    not_decided=["compactCells is lossless, canonical and order independent (open-addressing hash with deletion over an unbounded array: needs "
                 "sum/multiset invariants that CBMC contracts cannot express)",
                 "uncompactCellsSize equals the exact sum of the child counts (a sum over an unbounded array)"],
    level_text="Unbounded proof of the stated uncompact clauses (capacity never exceeded, documented error codes) on the real functions; "
               "the compaction clauses are outside what the contract language can express and are not claimed.",
    level_note="Category 'other' because only the uncompact half is decided. Iterator callees are replaced by frame-only contracts here "
               "(their functional contracts are C04's).")
J(name="c06.uncompactCells", props=["C06", "C12", "C18"], harness="c03.c", entry="h_uncompactCells", enforce=["uncompactCells"],
  replace=["_iterInitParent/_iterInitParent_frame06", "iterStepChild/iterStepChild_frame06"],
  loops=[dict(fn="uncompactCells", loop=1, locals=["i", "j", "iter", "numCompacted", "numOut", "outSet", "compactedSet", "res"],
              assigns="i, j, __CPROVER_object_whole(outSet)",
              inv="0 <= j && (j <= numCompacted || numCompacted < 0) && 0 <= i && (i <= numOut || (i == 0 && numOut < 0)) && "
                  "((0 <= h3v_g && h3v_g < j) ==> S_HAS_CHILD_AT(compactedSet[h3v_g], res))"),
         dict(fn="uncompactCells", loop=0, locals=["i", "j", "iter", "numCompacted", "numOut", "outSet", "compactedSet", "res"],
              assigns="i, iter, __CPROVER_object_whole(outSet)",
              inv="0 <= i && (i <= numOut || (i == 0 && numOut < 0)) && 0 <= j && j < numCompacted")], checks=NO_CONV)
J(name="c06.uncompactCellsSize", props=["C06", "C12", "C18"], harness="c03.c", entry="h_uncompactCellsSize", enforce=["uncompactCellsSize"],
  replace=["cellToChildrenSize"], checks=NO_CONV,
  loops=[dict(fn="uncompactCellsSize", loop=0, locals=["i", "numOut", "numCompacted", "compactedSet", "res"],
              assigns="i, numOut",
              inv="0 <= i && (i <= numCompacted || numCompacted < 0) && 0 <= numOut && numOut <= (i << 43) && "
                  "((0 <= h3v_g && h3v_g < i && compactedSet[h3v_g] != 0) ==> (S_HAS_CHILD_AT(compactedSet[h3v_g], res) && "
                  "numOut >= S_NCHILD(compactedSet[h3v_g], res)))")])

# ------------------------------------------------------------------ C12 batch / C14 / C09 / C02 argument clauses
for fn in ("getHexagonAreaAvgKm2", "getHexagonAreaAvgM2", "getHexagonEdgeLengthAvgKm", "getHexagonEdgeLengthAvgM"):
    J(name="c12." + fn, props=["C12", "C18"], harness="c12.c", entry="h_" + fn, enforce=[fn])
for fn in ("getResolution", "getBaseCellNumber", "isResClassIII", "describeH3Error"):
    J(name="c12." + fn, props=["C12", "C18"], harness="c12.c", entry="h_" + fn, enforce=[fn])
J(name="c12.maxFaceCount", props=["C12", "C18", "C19"], harness="c12.c", entry="h_maxFaceCount", enforce=["maxFaceCount"], replace=["isPentagon"])
J(name="c12.maxGridDiskSize", props=["C12", "C18", "C05"], harness="c12.c", entry="h_maxGridDiskSize", enforce=["maxGridDiskSize"],
  replay=dict(fn="maxGridDiskSize", args=["k"]))
J(name="c12.gridRingUnsafe", props=["C12", "C18", "C05"], harness="c12.c", entry="h_gridRingUnsafe", enforce=["gridRingUnsafe"],
  replace=["h3NeighborRotations/h3NeighborRotations_frame", "isPentagon"],
  loops=[dict(fn="gridRingUnsafe", loop=0, locals=["ring", "k", "origin", "rotations"], assigns="ring, origin, rotations",
              inv="0 <= ring && ring <= k && !S_IS_PENT(origin)", dec="k - ring"),
         dict(fn="gridRingUnsafe", loop=1, locals=["direction", "pos", "idx", "k", "origin", "rotations", "out"],
              assigns="pos, idx, origin, rotations, __CPROVER_object_whole(out)",
              inv="0 <= pos && pos <= k && 0 <= direction && direction < 6 && k >= 1 && "
                  "idx == 1 + direction * k + pos - ((direction == 5 && pos == k) ? 1 : 0) && "
                  "((0 <= h3v_g && h3v_g < idx) ==> !S_IS_PENT(out[h3v_g]))", dec="k - pos"),
         dict(fn="gridRingUnsafe", loop=2, locals=["direction", "idx", "k", "origin", "rotations", "out"],
              assigns="direction, idx, origin, rotations, __CPROVER_object_whole(out)",
              inv="0 <= direction && direction <= 6 && k >= 1 && idx == 1 + direction * k - (direction == 6 ? 1 : 0) && "
                  "((0 <= h3v_g && h3v_g < idx) ==> !S_IS_PENT(out[h3v_g]))", dec="6 - direction")], checks=NO_CONV,
  replay=dict(fn="gridRingUnsafe", args=["origin", "k"]))
J(name="c09.cellToLocalIj", props=["C09", "C12", "C18"], harness="c12.c", entry="h_cellToLocalIj", enforce=["cellToLocalIj"],
  replace=["cellToLocalIjk/cellToLocalIjk_frame", "ijkToIj/ijkToIj_frame"])
J(name="c09.localIjToCell", props=["C09", "C12", "C18"], harness="c12.c", entry="h_localIjToCell", enforce=["localIjToCell"],
  replace=["localIjkToCell/localIjkToCell_frame"])
J(name="c09.gridDistance", props=["C09", "C12", "C18"], harness="c12.c", entry="h_gridDistance", enforce=["gridDistance"],
  replace=["cellToLocalIjk/cellToLocalIjk_uf", "ijkDistance/ijkDistance_frame"])
J(name="c14.gridPathCellsSize", props=["C14", "C12", "C18"], harness="c12.c", entry="h_gridPathCellsSize", enforce=["gridPathCellsSize"],
  replace=["gridDistance/gridDistance_ghost"])
J(name="c14.gridPathCells", props=["C14", "C12", "C18"], harness="c12.c", entry="h_gridPathCells", enforce=["gridPathCells"], checks=NO_CONV, timeout=1800,
  exclude=[(r"(cubeRound|gridPathCells)\.overflow", "integer arithmetic on the rounded interpolated cube coordinates is overflow-free only because the "
            "coordinates produced by cellToLocalIjk are small; that bound is not established here (cellToLocalIjk is a frame-only contract)")],
  replace=["gridDistance/gridDistance_ghost", "cellToLocalIjk/cellToLocalIjk_frame", "localIjkToCell/localIjkToCell_frame",
           "ijkToCube/ijkToCube_frame", "cubeToIjk/cubeToIjk_frame"],
  loops=[dict(fn="gridPathCells", loop=0, locals=["n", "distance", "out", "currentIjk"], assigns="n, currentIjk, __CPROVER_object_whole(out)",
              inv="0 <= n && n <= distance + 1 && distance == h3v_dist", dec="distance + 1 - n")])
J(name="c02.latLngToCell.args", props=["C02", "C12", "C18"], harness="c12.c", entry="h_latLngToCell", enforce=["latLngToCell"],
  replace=["_geoToFaceIjk/_geoToFaceIjk_frame", "_faceIjkToH3/_faceIjkToH3_frame"])

PROPS["C12"] = dict(
    level="other",
    explanation="one totality contract per function under contract: scalar arguments unconstrained (arbitrary 64-bit indexes, ints, doubles), "
                "buffers of the documented size, postcondition = documented error code for out-of-domain scalars; CBMC's bounds / pointer / "
                "overflow / shift / conversion / division checks are the safety obligations inside the real function bodies (class S). "
                "Functions not under contract are listed in clauses_not_decided.",
    trusted_base=["frame-only contracts for callees whose values do not matter to safety (listed under contracts_assumed when never enforced)"],
    not_decided=["_h3ToFaceIjk for indexes in the twelve pentagon base cells and the arithmetic-overflow obligations of its digit walk (jobs parked): "
                 "cellToLatLng / cellToBoundary are proved against the contract _h3ToFaceIjk_safe, which is enforced for the other 116 base-cell "
                 "numbers only; their floating-point projection callees are frame contracts",
                 "functions without a totality contract in this round: directedEdgeToBoundary, vertexToLatLng, "
                 "cellAreaRads2, edgeLengthRads, greatCircleDistanceRads, gridDisksUnsafe, gridDiskDistancesSafe, compactCells, polygonToCells "
                 "and maxPolygonToCellsSize (beyond the invalid-flags path), cellsToLinkedMultiPolygon, destroyLinkedMultiPolygon; the "
                 "geometric callees replaced by frame-only contracts; write bounds of gridDiskDistancesUnsafe (only its arithmetic and codes)",
                 "jobs that run with a reduced set of generic checks (cellToChildren pairs: bounds+pointer only; uncompactCells*, gridPathCells, "
                 "gridRingUnsafe: no conversion check) decide correspondingly less",
                 "the clause 'no internal cannot-happen check is ever triggered' (debug-flavour assertions) is not checked in this round"],
    assumptions=[],
    level_text="Per-function unbounded proof of memory safety, absence of arithmetic UB and documented error codes for the functions listed in "
               "functions_under_contract; the remaining exported functions are enumerated as not covered, so the property as a whole is "
               "only partially decided.",
    level_note="Category 'other': a per-function proof for a stated subset of the API. Trusts CBMC/DFCC/CaDiCaL; callees replaced by contracts.")
PROPS["C14"] = dict(
    level="other",
    explanation="announced-size clauses by contracts: gridPathCellsSize == gridDistance + 1 or the same error; gridPathCells writes only "
                "out[0..distance] (loop contract, buffer of exactly distance+1 cells) and nothing at all when the distance call fails. "
                "gridDistance enters as an opaque deterministic result (ghosts).",
    trusted_base=[], assumptions=[],
    not_decided=["the path starts with a, ends with b and consecutive cells are neighbours (floating-point interpolation + local IJ geometry)",
                 "success for a == b and for every pair of neighbouring cells"],
    level_text="Unbounded proof of the size/write-bound clauses on the real functions; contiguity/endpoints are not decidable here.",
    level_note="Category 'other': partial. cellToLocalIjk / localIjkToCell / cube conversions are frame-only contracts.")
PROPS["C09"] = dict(
    level="other",
    explanation="argument clauses by contracts: cellToLocalIj / localIjToCell reject mode != 0 with E_OPTION_INVALID leaving outputs untouched; "
                "gridDistance returns a non-negative distance or an error leaving the output untouched, and E_RES_MISMATCH for differing "
                "resolutions (cellToLocalIjk's mismatch clause enforced on the real code, gridDistance composed over it); the overflow "
                "guards ijToIjk, _upAp7Checked, _upAp7rChecked are exact for all non-negative int32 inputs (no arithmetic UB, E_FAILED or a "
                "normalised result)",
    trusted_base=[], assumptions=[],
    not_decided=["gridDistance equals the true graph distance, symmetry, 0 for a==b, 1 for neighbours (decided inside cellToLocalIjk, whose "
                 "functional behaviour is not under contract; its memory-safety jobs run out of memory)",
                 "cellToLocalIj / localIjToCell mutually inverse; localIjToCell returns only valid cells; unit IJ steps between neighbours"],
    level_text="Only the option/argument clauses are proved (unbounded, real code); the relational clauses are not decided in this round.",
    level_note="Category 'other': small part of the statement. Trusts CBMC/DFCC/CaDiCaL.")
PROPS["C02"] = dict(
    level="other",
    explanation="argument-validation clause by contract on the real latLngToCell: resolution outside 0..15 => E_RES_DOMAIN, non-finite "
                "coordinate => E_LATLNG_DOMAIN, in both cases no index written; otherwise success with a non-null index or E_FAILED",
    trusted_base=["glibc's isfinite macro is redirected to CBMC's __CPROVER_isfinited (stubs/pre_math.h)"], assumptions=[],
    not_decided=["the returned cell's boundary contains the point (gnomonic projection, libm)", "success and validity of the result for every finite coordinate"],
    level_text="Only the rejection clauses are proved (all doubles including NaN/inf, all ints); containment is outside the technique.",
    level_note="Category 'other'. _geoToFaceIjk and _faceIjkToH3 are frame-only contracts.")

# ------------------------------------------------------------------ C18
KNOWN_MUTABLE_STATICS = {   # static-lifetime objects of the library that are not const (reviewed; must never be written)
    "H3ErrorDescriptions": ("h3Index.c", r"static char \*H3ErrorDescriptions\[\]", "static char *const H3ErrorDescriptions[]"),
    "MAX_EDGE_LENGTH_RADS": ("polyfill.c", r"static double MAX_EDGE_LENGTH_RADS\[", "static const double MAX_EDGE_LENGTH_RADS["),
    "NORTH_POLE_CELLS": ("polyfill.c", r"static H3Index NORTH_POLE_CELLS\[", "static const H3Index NORTH_POLE_CELLS["),
    "SOUTH_POLE_CELLS": ("polyfill.c", r"static H3Index SOUTH_POLE_CELLS\[", "static const H3Index SOUTH_POLE_CELLS["),
    "RES0_BBOXES": ("polyfill.c", r"static BBox RES0_BBOXES\[", "static const BBox RES0_BBOXES["),
    "VALID_RANGE_BBOX": ("polyfill.c", r"static BBox VALID_RANGE_BBOX =", "static const BBox VALID_RANGE_BBOX ="),
    "MAX_SIZE_CELL_THRESHOLD": ("polyfill.c", r"static int MAX_SIZE_CELL_THRESHOLD =", "static const int MAX_SIZE_CELL_THRESHOLD ="),
}


def static_inventory(ctx, sh):
    """C18 obligations that are facts about the whole library rather than about one function:
    (1) static-inventory: every writable static-lifetime object (file-scope or function-local 'static', from the symbol tables of the
        natively compiled objects: nm types d/D/b/B) is on the reviewed list above -- a new one (a cache, a memo, a cursor) is a
        failed obligation, because DFCC does not see writes to function-local statics;
    (2) static-never-written: with each listed object declared const in a scratch copy, the library still compiles with
        -Werror (no assignment, no non-const address escape), i.e. no code writes them."""
    import os, re, shutil, subprocess, time
    t0 = time.time()
    import importlib
    h3v_repo = os.environ.get("H3V_REPO", "/repo")
    libsrc = os.path.join(h3v_repo, "src/h3lib/lib")
    libinc = os.path.join(h3v_repo, "src/h3lib/include")
    d = os.path.join(ctx.dir, "statics")
    os.makedirs(d, exist_ok=True)
    results = []

    def add(name, desc, ok, extra=None):
        results.append({"name": name, "desc": desc, "status": "SUCCESS" if ok else "FAILURE", "cls": "P", "loc": {},
                        "trace": None, "detail": extra})
    srcs = sorted(f for f in os.listdir(libsrc) if f.endswith(".c"))
    base = ["cc", "-c", "-O0", "-DH3_PREFIX=", "-I" + libinc, "-I" + ctx.gen]
    found = {}
    for f in srcs:
        o = os.path.join(d, f[:-2] + ".o")
        p = subprocess.run(base + [os.path.join(libsrc, f), "-o", o], capture_output=True, text=True)
        if p.returncode != 0:
            return {"name": "c18.statics", "status": "undecided", "results": [], "cmds": [], "reason": "native compile failed: " + p.stderr[-300:],
                    "solver_s": 0.0, "wall_s": time.time() - t0, "bounded": False, "job": {"name": "c18.statics", "props": ["C18"], "harness": "", "entry": ""}}
        nm = subprocess.run(["nm", o], capture_output=True, text=True).stdout
        for line in nm.splitlines():
            parts = line.split()
            if len(parts) == 3 and parts[1] in "dDbB":
                found.setdefault(parts[2], f)
    for sym, f in sorted(found.items()):
        basename = sym.split(".")[0]
        ok = sym in KNOWN_MUTABLE_STATICS
        add("static-inventory.%s.%s" % (f, sym),
            "writable static-lifetime object '%s' in %s is on the reviewed list%s" % (sym, f, "" if ok else
            " -- NOT listed: a new mutable static (function-local statics appear as name.NNN) is shared by all threads"), ok,
            {"symbol": sym, "file": f})
    for sym in sorted(KNOWN_MUTABLE_STATICS):
        if sym not in found:
            add("static-inventory.listed.%s" % sym, "listed object '%s' no longer exists as a writable static (list is stale but harmless)" % sym, True)
    # const-ification
    cdir = os.path.join(d, "const")
    os.makedirs(cdir, exist_ok=True)
    for f in srcs:
        txt = open(os.path.join(libsrc, f)).read()
        for sym, (ff, pat, rep) in KNOWN_MUTABLE_STATICS.items():
            if ff == f:
                txt2, n = re.subn(pat, rep, txt)
                if n == 1:
                    txt = txt2
        open(os.path.join(cdir, f), "w").write(txt)
    for f in sorted(set(v[0] for v in KNOWN_MUTABLE_STATICS.values())):
        p = subprocess.run(base + ["-Werror", "-Wall", "-Wno-unused-function", os.path.join(cdir, f), "-o", os.path.join(cdir, f[:-2] + ".o")],
                           capture_output=True, text=True)
        syms = [s2 for s2, v in KNOWN_MUTABLE_STATICS.items() if v[0] == f and s2 in found]
        add("static-never-written." + f, "with %s declared const, %s still compiles under -Werror: no code writes them" % (", ".join(syms), f),
            p.returncode == 0, {"compiler_output": p.stderr[-600:]})
    status = "ok" if all(r["status"] == "SUCCESS" for r in results) else "fail"
    return {"name": "c18.statics", "status": status, "results": results,
            "cmds": ["cc -c -O0 -DH3_PREFIX= <each lib .c> && nm (writable data symbols) ; const-ified scratch copy compiled with -Werror"],
            "reason": "", "solver_s": 0.0, "wall_s": time.time() - t0, "bounded": False,
            "job": {"name": "c18.statics", "props": ["C18"], "harness": "", "entry": "", "no_canary": True}}


PROPS["C18"] = dict(
    level="other", hooks=["static_inventory"],
    explanation="no schedule is explored. Decided as: (1) inventory of every static-lifetime object of the library from the compiled objects; the "
                "only writable ones are seven reviewed tables/constants, any other (file-scope or function-local static) fails the check; "
                "(2) those seven are never written (library compiles with them declared const under -Werror) and, for every function under "
                "contract, CBMC/DFCC proves the frame condition: every assignment, memcpy/memset and free in the function and its inlined "
                "callees targets only the caller's buffers named in the contract's assigns clause, locals, or blocks allocated by the call; "
                "(3) meta-theorem on paper: calls that write only their own arguments' memory and read only never-written shared objects "
                "are equivalent to some sequential order.",
    trusted_base=["thread safety of libc malloc/free, sprintf/sscanf and libm", "the non-interference meta-theorem (paper argument)",
                  "nm symbol types d/D/b/B as the definition of 'writable static-lifetime object' (gcc, -O0)"],
    not_decided=["interleavings themselves (CBMC does not model threads here)",
                 "frame conditions of the exported functions that have no contract in this round (see C12's list)"],
    assumptions=[],
    level_text="Frame conditions are proved per function under contract (assigns clauses enforced by DFCC on the real code, all inputs); the "
               "global 'no mutable shared state' fact is a mechanical inventory plus a const-compilation check; no schedules are explored.",
    level_note="Category 'other': sequential frame proofs + static inventory + a stated non-interference argument, not a concurrency analysis.")

# ------------------------------------------------------------------ C15 flag clauses, legacy polygonToCells (C17)
PROPS["C15"] = dict(
    level="other",
    explanation="flag and capacity clauses by contracts: validatePolygonFlags <=> (no bits above the low four, mode < 4); all four polyfill "
                "entry points answer E_OPTION_INVALID (before anything is allocated) for invalid flags; polygonToCellsExperimental writes "
                "out[i] only for i < size (loop contract, buffer of exactly size cells) and releases the iterator on the E_MEMORY_BOUNDS path",
    trusted_base=["iterStepPolygonCompact's contract (the geometric polygon walk) is assumed"], assumptions=[],
    not_decided=["what each containment mode includes/excludes, nesting FULL < CENTER < OVERLAPPING < OVERLAPPING_BBOX, and that "
                 "maxPolygonToCellsSizeExperimental is an upper bound (floating-point geometry)"],
    level_text="Unbounded proof of the flag/capacity/allocator clauses on the real functions; the mode semantics are outside the technique.",
    level_note="Category 'other': partial.")
J(name="c15.validatePolygonFlags", props=["C15", "C12", "C18"], harness="c17.c", entry="h_validatePolygonFlags", alloc=True,
  enforce=["validatePolygonFlags"])
J(name="c15.polygonToCells.badflags", props=["C15", "C12"], harness="c17.c", entry="h_polygonToCells_badflags", alloc=True,
  enforce=["polygonToCells/polygonToCells_badflags"], unwind=2)
J(name="c15.maxPolygonToCellsSize.badflags", props=["C15", "C12"], harness="c17.c", entry="h_maxPolygonToCellsSize_badflags", alloc=True,
  enforce=["maxPolygonToCellsSize/maxPolygonToCellsSize_badflags"], unwind=2)
PTC_PTRS = "bboxes == __CPROVER_loop_entry(bboxes) && numHexagons == h3v_n"
PTC_SWAP = "((search == __CPROVER_loop_entry(search) && found == __CPROVER_loop_entry(found)) || " \
           "(search == __CPROVER_loop_entry(found) && found == __CPROVER_loop_entry(search)))"
PTC_LOC = ["i", "j", "loc", "loopCount", "currentSearchNum", "numSearchHexes", "numFoundHexes", "search", "found", "bboxes", "out",
           "numHexagons", "ring", "edgeHexError", "hexCenter", "temp", "searchHex", "hex"]
J(name="c17.polygonToCells", props=["C17"], harness="c17.c", entry="h_polygonToCells", alloc=True, timeout=3000, tier="never",  # out of memory / > 50 min: not registered
  bound_note="size estimate (length of the out/search/found arrays) restricted to 12..16 cells; loops closed by loop contracts (no iteration bound)",
  enforce=["polygonToCells/polygonToCells_c17"], checks=["--no-standard-checks"],
  replace=["validatePolygonFlags", "maxPolygonToCellsSize/maxPolygonToCellsSize_frame", "_getEdgeHexagons/_getEdgeHexagons_frame",
           "bboxesFromGeoPolygon/bboxesFromGeoPolygon_frame", "gridDisk/gridDisk_k1_c17", "cellToLatLng/cellToLatLng_frame",
           "pointInsidePolygon/pointInsidePolygon_frame"],
  exclude=[(r"polygonToCells\.(pointer_dereference|pointer_arithmetic|array_bounds|assigns)\.\d+ .*(search|found|out|ring)\[",
            "data-index obligations of the legacy fill (search[i], found[numFoundHexes], out[loc]): they rest on the floating-point size "
            "estimate and are not theorems (upstream marks these paths 'reachable via fuzzer'); only the allocator discipline is decided here")],
  loops=[dict(fn="polygonToCells", loop=0, locals=["i#0", "edgeHexError", "numSearchHexes", "search", "found", "geoPolygon"],
              assigns="i_0, edgeHexError, numSearchHexes, __CPROVER_object_whole(search), __CPROVER_object_whole(found)",
              inv="0 <= i_0 && i_0 <= geoPolygon->numHoles"),
         dict(fn="polygonToCells", loop=1, locals=["i#1", "found", "numHexagons"],
              assigns="i_1, __CPROVER_object_whole(found)", inv="0 <= i_1 && i_1 <= numHexagons"),
         dict(fn="polygonToCells", loop=2, locals=["loc", "loopCount"], assigns="loc, loopCount", inv="1 == 1"),
         dict(fn="polygonToCells", loop=3, locals=["j#0", "numFoundHexes", "out", "found"],
              assigns="j_0, numFoundHexes, __CPROVER_object_whole(out), __CPROVER_object_whole(found)", inv="0 <= j_0 && j_0 <= 7"),
         dict(fn="polygonToCells", loop=4, locals=["currentSearchNum", "i#2", "numFoundHexes", "out", "found"],
              assigns="currentSearchNum, i_2, numFoundHexes, __CPROVER_object_whole(out), __CPROVER_object_whole(found), h3v_live, h3v_failed",
              inv="h3v_live == h3v_live0 + 3 && !h3v_failed"),
         dict(fn="polygonToCells", loop=5, locals=["j#1", "found"], assigns="j_1, __CPROVER_object_whole(found)", inv="0 <= j_1"),
         dict(fn="polygonToCells", loop=6, locals=["search", "found", "numSearchHexes", "numFoundHexes", "out"],
              assigns="search, found, numSearchHexes, numFoundHexes, __CPROVER_object_whole(out), __CPROVER_object_whole(search), "
                      "__CPROVER_object_whole(found), h3v_live, h3v_failed",
              inv="h3v_live == h3v_live0 + 3 && !h3v_failed && " + PTC_SWAP)])

J(name="c09.upAp7Checked", props=["C09", "C12"], harness="c12.c", entry="h_upAp7Checked", enforce=["_upAp7Checked"], timeout=900)
J(name="c09.upAp7rChecked", props=["C09", "C12"], harness="c12.c", entry="h_upAp7rChecked", enforce=["_upAp7rChecked"], timeout=900)
J(name="c09.ijToIjk", props=["C09", "C12"], harness="c12.c", entry="h_ijToIjk", enforce=["ijToIjk"])
J(name="c05.gridDiskDistancesInternal", props=["C05", "C12", "C18"], harness="c12.c", entry="h_gridDiskDistancesInternal", rec=True,
  enforce=["_gridDiskDistancesInternal"], replace=["h3NeighborRotations/h3NeighborRotations_frame"], unwind=8,
  loops=[dict(fn="_gridDiskDistancesInternal", loop=0, locals=["off", "maxIdx"], assigns="off", inv="0 <= off && off < maxIdx"),
         dict(fn="_gridDiskDistancesInternal", loop=1, locals=["i", "out", "distances"],
              assigns="i, __CPROVER_object_whole(out), __CPROVER_object_whole(distances)", inv="0 <= i && i <= 6", dec="6 - i")])
J(name="c09.localIjkToCell.safe", props=["C09"], harness="c12.c", entry="h_localIjkToCell", unwind=17, timeout=1800,
  enforce=["localIjkToCell/localIjkToCell_safe"], replace=["_upAp7Checked", "_upAp7rChecked"], tier="never")   # out of memory (10 GB)
J(name="c09.cellToLocalIjk.safe", props=["C09"], harness="c12.c", entry="h_cellToLocalIjk", unwind=17, timeout=1800,
  enforce=["cellToLocalIjk/cellToLocalIjk_safe"], tier="never")   # out of memory (10 GB)

J(name="c13.childPosToCell.safe", props=["C13", "C12", "C01"], harness="c13.c", entry="h_childPosToCell", enforce=["childPosToCell/childPosToCell_safe"],
  replace=["_ipow", "isPentagon"], unwind=17, timeout=900)

# ------------------------------------------------------------------ C05
PROPS["C05"] = dict(
    level="other",
    explanation="unbounded contract clauses: maxGridDiskSize == min(3k(k+1)+1, cells at res 15) / E_DOMAIN; gridRingUnsafe writes stay inside "
                "6k slots for every k (loop contracts), negative k refused; the hash-set insertion of the safe disk probes only inside the "
                "maxGridDiskSize slots (recursive contract); areNeighborCells error codes and 'a positive answer comes from the sibling "
                "shortcut or from the 1-disk'; BOUNDED (never counted as proved): gridDisksUnsafe succeeds only if every "
                "per-cell disk succeeded (<= 3 input cells); gridDiskDistancesUnsafe has no arithmetic overflow for k <= 30000; the neighbour step on all valid cells of resolution <= 1 (quick) / <= 2 (thorough) is total, yields valid "
                "same-resolution cells, E_PENTAGON exactly for (pentagon, K), is symmetric and injective in the direction.",
    trusted_base=["h3NeighborRotations is a frame-only / uninterpreted contract in the unbounded jobs; its concrete behaviour is only checked bounded"],
    not_decided=["gridDisk* return exactly the BFS ball with exact distances, without duplicates, for all k (hash-set contents over an unbounded array)",
                 "gridDiskDistancesUnsafe / gridDiskUnsafe write bounds (ring bookkeeping needs a quadratic invariant that did not close)",
                 "equivalence of areNeighborCells' sibling shortcut with the step relation beyond the bounded resolutions"],
    assumptions=[],
    level_text="Mixed: unbounded proofs for the code/size/bounds clauses listed, bounded symbolic runs (stated resolution bound, all cells of "
               "those resolutions and all directions) for the neighbour relation; exact BFS equality is outside the technique.",
    level_note="Category 'other'. Bounded jobs are labelled in the evidence (coverage.bounds) and are not part of 'discharged'.")
J(name="c05.areNeighborCells", props=["C05", "C12", "C18"], harness="c05.c", entry="h_areNeighborCells", enforce=["areNeighborCells"],
  replace=["gridDisk/gridDisk_ring_ghost", "isPentagon"], unwind=17, replay=dict(fn="areNeighborCells", args=["origin", "destination"]))
J(name="c05.gridDisksUnsafe", props=["C05"], harness="c05.c", entry="h_gridDisksUnsafe", enforce=["gridDisksUnsafe"], tier="never",  # does not close yet (write-set creation for the segmented buffer fails): not registered
  bound_note="segment size (maxGridDiskSize(k)) fixed to 7; the number of input cells is unbounded (loop contract)",
  replace=["gridDiskUnsafe/gridDiskUnsafe_w", "maxGridDiskSize/maxGridDiskSize_ghost"],
  loops=[dict(fn="gridDisksUnsafe", loop=0, locals=["i", "length", "h3Set", "k", "out", "segment", "segmentSize"],
              assigns="i, segment, __CPROVER_object_whole(out)",
              inv="0 <= i && (i <= length || length < 0) && segmentSize == h3v_n && k >= 0 && "
                  "((0 <= h3v_g && h3v_g < i && h3Set[h3v_g] == h3v_w) ==> h3v_werr == 0)")])
J(name="c05.neighbor.res1", props=["C05"], harness="c05.c", entry="h_neighbor_closure", defs=["MAXRES=1"], unwind=8, timeout=1500,
  bound_note="all valid cells of resolution <= 1 (842+122 cells, symbolic) x all 6 directions; loops unwound with unwinding assertions")
J(name="c05.neighbor.res2", props=["C05", "C10", "C01"], harness="c05.c", entry="h_neighbor_closure", defs=["MAXRES=2"], unwind=8, timeout=3000, tier="thorough",
  bound_note="all valid cells of resolution <= 2 (symbolic) x all 6 directions; loops unwound with unwinding assertions")

# ------------------------------------------------------------------ C11
PROPS["C11"] = dict(
    level="other",
    explanation="predicate/shape clauses by contracts for all 2^64 inputs: isValidVertex <=> (mode 4, valid owner cell, re-deriving the vertex "
                "from (owner, number) reproduces the index); cellToVertexes slot i == cellToVertex(cell, i), slot 5 null for a pentagon, errors "
                "propagated; cellToVertex answers E_DOMAIN for a vertex number outside the cell's range without writing, results have mode 4, "
                "centre children name their own vertexes. cellToVertex's owner selection enters as an uninterpreted deterministic function.",
    trusted_base=["cellToVertex as an uninterpreted function in the isValidVertex / cellToVertexes proofs"], assumptions=[],
    not_decided=["the three cells at a corner produce the identical index; 2N-4 count; neighbours share exactly two vertexes (needs the concrete "
                 "neighbour step: bounded only, not built for vertexes in this round)", "vertexToLatLng is the i-th corner of cellToBoundary (geometry)"],
    level_text="Unbounded proof of the predicate/shape clauses on the real functions; canonical sharing and coordinates are not decided.",
    level_note="Category 'other': partial.")
J(name="c11.isValidVertex", props=["C11", "C12", "C18"], harness="c11.c", entry="h_isValidVertex", enforce=["isValidVertex"],
  replace=["isValidCell", "cellToVertex/cellToVertex_uf"], replay=dict(fn="isValidVertex", args=["vertex"]))
J(name="c11.cellToVertexes", props=["C11", "C12", "C18"], harness="c11.c", entry="h_cellToVertexes", enforce=["cellToVertexes"],
  replace=["isPentagon", "cellToVertex/cellToVertex_uf"], unwind=8, replay=dict(fn="cellToVertexes", args=["cell"]))
J(name="c11.cellToVertex", props=["C11", "C12", "C18"], harness="c11.c", entry="h_cellToVertex", enforce=["cellToVertex"],
  replace=["isPentagon", "h3NeighborRotations/h3NeighborRotations_uf", "directionForVertexNum/directionForVertexNum_frame",
           "vertexNumForDirection/vertexNumForDirection_frame", "directionForNeighbor/directionForNeighbor_frame"],
  exclude=[(r"cellToVertex\.overflow\.\d+ .*\(uint64_t\)ownerVertexNum", "signed-to-unsigned conversion (defined behaviour) of a vertex number that is -1 only "
            "when the vertex-number lookup fails; whether that is reachable depends on vertexNumForDirection, a frame-only contract here")])

# ------------------------------------------------------------------ C19
PROPS["C19"] = dict(
    level="other",
    explanation="output-shape clauses by an enforced (recursive) contract with loop contracts: the maxFaceCount slots hold distinct face numbers "
                "0..19 followed by -1 padding, every vertex of the cell is examined (5/6) and the face of every examined vertex is reported; "
                "maxFaceCount == 5 for a pentagon else 2. Pentagon clause by COMPLETE ENUMERATION: one job per pentagon (12 base cells x 16 "
                "resolutions = all 192 pentagons that exist), the real getIcosahedronFaces with all its real callees (integer face-overage "
                "arithmetic only, no floating point on this path) on the concrete index: success with five distinct faces 0..19, every "
                "safety obligation of the executed path discharged.",
    trusted_base=["_adjustPentVertOverage produces a face in 0..19 (assumed frame contract in the shape proof; the pentagon enumeration uses the "
                  "real function); for _adjustOverageClassII the face range is enforced on the real function (c12.adjustOverageClassII), its "
                  "ghost bookkeeping (one call per vertex) is part of the frame contract"], assumptions=[],
    not_decided=["the reported faces are exactly those the cell's interior meets (geometry)", "a valid hexagon always succeeds with one or two faces"],
    level_text="Unbounded proof of the shape clauses for all 2^64 inputs; the pentagon clause is decided for every one of the 192 pentagons "
               "(finite domain, exhaustively enumerated, no bound); the geometric meaning and the hexagon success clause are not decided.",
    level_note="Category 'other': partial.")
J(name="c19.getIcosahedronFaces", props=["C19", "C12", "C18"], harness="c19.c", entry="h_getIcosahedronFaces", rec=True,
  enforce=["getIcosahedronFaces"],
  replace=["isPentagon", "maxFaceCount", "_h3ToFaceIjk/_h3ToFaceIjk_frame", "_faceIjkToVerts/_faceIjkToVerts_frame",
           "_faceIjkPentToVerts/_faceIjkPentToVerts_frame", "_adjustOverageClassII/_adjustOverageClassII_frame",
           "_adjustPentVertOverage/_adjustPentVertOverage_frame"],
  loops=[dict(fn="getIcosahedronFaces", loop=0, locals=["i#0", "faceCount", "out"], assigns="i_0, __CPROVER_object_whole(out)",
              inv="0 <= i_0 && i_0 <= faceCount && (faceCount == 2 || faceCount == 5) && ((0 <= h3v_g && h3v_g < i_0) ==> out[h3v_g] == -1) && "
                  "((0 <= h3v_g2 && h3v_g2 < i_0) ==> out[h3v_g2] == -1)"),
         dict(fn="getIcosahedronFaces", loop=1, locals=["pos", "faceCount", "out", "face"], assigns="pos",
              inv="0 <= pos && pos < faceCount && ((0 <= h3v_g && h3v_g < pos) ==> (out[h3v_g] != -1 && out[h3v_g] != face))"),
         dict(fn="getIcosahedronFaces", loop=2, locals=["i#1", "vertexCount", "faceCount", "out", "fijkVerts", "isPent"],
              assigns="i_1, __CPROVER_object_whole(out), __CPROVER_object_whole(fijkVerts), h3v_adj_calls, h3v_seen",
              inv="0 <= i_1 && i_1 <= vertexCount && h3v_adj_calls == i_1 && (faceCount == 2 || faceCount == 5) && "
                  "vertexCount == (isPent ? 5 : 6) && faceCount == (isPent ? 5 : 2) && "
                  "((0 <= h3v_g && h3v_g < faceCount) ==> (out[h3v_g] >= -1 && out[h3v_g] <= 19)) && "
                  "((0 <= h3v_g && h3v_g < h3v_g2 && h3v_g2 < faceCount) ==> ((out[h3v_g] == -1 ==> out[h3v_g2] == -1) && "
                  "(out[h3v_g2] != -1 ==> out[h3v_g] != out[h3v_g2]))) && "
                  "(h3v_seen ==> (out[0] == h3v_wf || out[1] == h3v_wf || (faceCount == 5 && (out[2] == h3v_wf || out[3] == h3v_wf || out[4] == h3v_wf))))")])
J(name="c19.pentagons", props=["C19"], harness="c19.c", entry="h_pentagon_faces", unwind=18, timeout=2400, tier="never")  # symbolic over the 192 pentagons: does not finish

for nmax, tier in ((1, "never"), (2, "never"), (3, "never")):   # does not finish within 30 min even for 2 cells: not registered
    J(name="c17.compactCells.n%d" % nmax, props=["C17"], harness="c17.c", entry="h_compactCells", alloc=True, defs=["C17_NMAX=%d" % nmax],
      enforce=["compactCells/compactCells_c17"], replace=["isPentagon", "cellToParent"], unwind=nmax + 3, timeout=1800, tier=tier,
      checks=["--bounds-check", "--pointer-check"],
      bound_note="at most %d input cells (every allocation may fail; all error exits reachable at that size except the pentagon-duplicate one)" % nmax)

J(name="c05.gridDiskDistancesUnsafe", props=["C05"], harness="c12.c", entry="h_gridDiskDistancesUnsafe", enforce=["gridDiskDistancesUnsafe"],
  replace=["h3NeighborRotations/h3NeighborRotations_frame", "isPentagon"], checks=["--no-standard-checks", "--signed-overflow-check"], timeout=1500,
  bound_note="k <= 30000 (covers the index range up to and beyond 2^31); arithmetic-overflow and error-code obligations only",
  exclude=[(r"gridDiskDistancesUnsafe\.assigns\.\d+ .*(out|distances)\[", "write bound idx < maxGridDiskSize(k): a quadratic fact, not decided"),
           (r"__CPROVER_contracts_write_set_check_assignment\.assertion\.\d+ ptr NULL or writable up to size",
            "the same undecided write bound, as seen by DFCC's write-set check")],
  loops=[dict(fn="gridDiskDistancesUnsafe", loop=0, locals=["idx", "ring", "direction", "i", "rotations", "origin", "k", "out", "distances"],
              assigns="idx, ring, direction, i, rotations, origin, __CPROVER_object_whole(out), __CPROVER_object_whole(distances)",
              inv="1 <= ring && ring <= k + 1 && 0 <= direction && direction < 6 && 0 <= i && i < ring && k <= 30000 && "
                  "(signed long)idx == 1 + 3 * (signed long)ring * ((signed long)ring - 1) + (signed long)direction * ring + i")],
  replay=dict(fn="gridDiskDistancesUnsafe_big", args=[]))

J(name="c12.uncompactCellsSize.unbounded", props=["C12"], harness="c03.c", entry="h_uncompactCellsSize", enforce=["uncompactCellsSize/uncompactCellsSize_any"],
  replace=["cellToChildrenSize"], checks=NO_CONV, replay=dict(fn="uncompactCellsSize_big", args=[]),
  loops=[dict(fn="uncompactCellsSize", loop=0, locals=["i", "numOut", "numCompacted"], assigns="i, numOut",
              inv="0 <= i && (i <= numCompacted || numCompacted < 0)")])

J(name="c09.cellToLocalIjk.mismatch", props=["C09", "C12"], harness="c12.c", entry="h_cellToLocalIjk", unwind=2,
  enforce=["cellToLocalIjk/cellToLocalIjk_mismatch"])

J(name="c12.cellAreaKm2", props=["C12", "C18"], harness="c12.c", entry="h_cellAreaKm2", enforce=["cellAreaKm2"], replace=["cellAreaRads2/cellAreaRads2_ghost"])
J(name="c12.cellAreaM2", props=["C12", "C18"], harness="c12.c", entry="h_cellAreaM2", enforce=["cellAreaM2"], replace=["cellAreaKm2/cellAreaKm2_ghost"])
J(name="c12.edgeLengthKm", props=["C12", "C18", "C10"], harness="c12.c", entry="h_edgeLengthKm", enforce=["edgeLengthKm"], replace=["edgeLengthRads/edgeLengthRads_ghost"])
J(name="c12.edgeLengthM", props=["C12", "C18", "C10"], harness="c12.c", entry="h_edgeLengthM", enforce=["edgeLengthM"], replace=["edgeLengthKm/edgeLengthKm_ghost"])
J(name="c12.greatCircleDistanceKm", props=["C12", "C18"], harness="c12.c", entry="h_greatCircleDistanceKm", enforce=["greatCircleDistanceKm"],
  replace=["greatCircleDistanceRads/greatCircleDistanceRads_ghost"])
J(name="c12.greatCircleDistanceM", props=["C12", "C18"], harness="c12.c", entry="h_greatCircleDistanceM", enforce=["greatCircleDistanceM"],
  replace=["greatCircleDistanceKm/greatCircleDistanceKm_ghost"])
J(name="c12.degsToRads", props=["C12", "C18"], harness="c12.c", entry="h_degsToRads", enforce=["degsToRads"])
J(name="c12.radsToDegs", props=["C12", "C18"], harness="c12.c", entry="h_radsToDegs", enforce=["radsToDegs"])
J(name="c12.gridDiskUnsafe", props=["C12", "C18", "C05"], harness="c12.c", entry="h_gridDiskUnsafe", enforce=["gridDiskUnsafe"],
  replace=["gridDiskDistancesUnsafe/gridDiskDistancesUnsafe_ghost"])

J(name="c12.h3ToFaceIjk.badbc", props=["C12", "C18"], harness="c12.c", entry="h_h3ToFaceIjk", enforce=["_h3ToFaceIjk/_h3ToFaceIjk_badbc"], tier="never",
  unwind=17, timeout=900, checks=["--no-standard-checks", "--bounds-check", "--pointer-check"])   # monolithic: > 12 min; subsumed by c12.h3ToFaceIjk.hexbc.m
J(name="c12.adjustOverageClassII", props=["C12", "C18", "C19"], harness="c12.c", entry="h_adjustOverageClassII",
  enforce=["_adjustOverageClassII/_adjustOverageClassII_safe"], unwind=7, checks=["--no-standard-checks", "--bounds-check", "--pointer-check"])
J(name="c12.h3ToFaceIjk.hexbc.m", props=["C12", "C18"], harness="c12.c", entry="h_h3ToFaceIjk", enforce=["_h3ToFaceIjk/_h3ToFaceIjk_hexbc"],
  replace=["_adjustOverageClassII/_adjustOverageClassII_safe"], unwind=17, timeout=900,
  checks=["--no-standard-checks", "--bounds-check", "--pointer-check"], replay=dict(fn="cellToLatLng_bc", args=["h"]))
for fres in range(16):
    J(name="c12.h3ToFaceIjk.hexbc.r%d" % fres, props=["C12", "C18"], harness="c12.c", entry="h_h3ToFaceIjk_res", defs=["FRES=%d" % fres],
      enforce=["_h3ToFaceIjk/_h3ToFaceIjk_hexbc"], unwind=17, timeout=600, tier="never",
      checks=["--no-standard-checks", "--bounds-check", "--pointer-check"])
J(name="c12.h3ToFaceIjk.hexbc.arith", props=["C12"], harness="c12.c", entry="h_h3ToFaceIjk", enforce=["_h3ToFaceIjk/_h3ToFaceIjk_hexbc"],
  unwind=17, timeout=1800, tier="never")   # with the arithmetic-overflow checks on: does not finish in 30 min (15 symbolic digit levels of aperture-7 arithmetic)
J(name="c12.h3ToFaceIjk.hexbc", props=["C12", "C18"], harness="c12.c", entry="h_h3ToFaceIjk", enforce=["_h3ToFaceIjk/_h3ToFaceIjk_hexbc"],
  unwind=17, timeout=3000, tier="never", checks=["--no-standard-checks", "--bounds-check", "--pointer-check"])   # out of memory (8 GB) after 13 min
J(name="c12.h3ToFaceIjk.pentbc.m", props=["C12", "C18"], harness="c12.c", entry="h_h3ToFaceIjk", enforce=["_h3ToFaceIjk/_h3ToFaceIjk_pentbc"],
  replace=["_adjustOverageClassII/_adjustOverageClassII_safe"], tier="never",   # parked: with --apply-loop-contracts DFCC reports the loop counters of the
  # (unwound) callees _h3ToFaceIjkWithInitializedFijk / _h3Rotate60cw as not assignable: spurious frame failures, not a property violation
  unwind=17, timeout=900, checks=["--no-standard-checks", "--bounds-check", "--pointer-check"],
  loops=[dict(fn="_h3ToFaceIjk", loop=0, locals=["fijk", "res"], assigns="*fijk",
              inv="fijk->face >= 0 && fijk->face <= 19 && res == __CPROVER_loop_entry(res) && fijk == __CPROVER_loop_entry(fijk)")])
J(name="c12.h3ToFaceIjk.hexbc.m.arith", props=["C12"], harness="c12.c", entry="h_h3ToFaceIjk", enforce=["_h3ToFaceIjk/_h3ToFaceIjk_hexbc"],
  replace=["_adjustOverageClassII/_adjustOverageClassII_safe"], unwind=17, timeout=1500, tier="never")
J(name="c12.h3ToFaceIjk.pentbc", props=["C12", "C18"], harness="c12.c", entry="h_h3ToFaceIjk", enforce=["_h3ToFaceIjk/_h3ToFaceIjk_pentbc"],
  unwind=17, timeout=1800, checks=["--no-standard-checks", "--bounds-check", "--pointer-check"], tier="never",  # parked: DFCC reports the callees' own
  # parameters/locals (h, r, i) as not assignable once the secondary-overage loop carries a contract (spurious frame failures, 250 s)
  loops=[dict(fn="_h3ToFaceIjk", loop=0, locals=["fijk", "res"], assigns="*fijk",
              inv="fijk->face >= 0 && fijk->face <= 19 && res == __CPROVER_loop_entry(res) && fijk == __CPROVER_loop_entry(fijk)")])
J(name="c12.cellToLatLng", props=["C12", "C18", "C03"], harness="c12.c", entry="h_cellToLatLng", enforce=["cellToLatLng"],
  replace=["_h3ToFaceIjk/_h3ToFaceIjk_safe", "_faceIjkToGeo/_faceIjkToGeo_frame"])
J(name="c12.cellToBoundary", props=["C12", "C18"], harness="c12.c", entry="h_cellToBoundary", enforce=["cellToBoundary"],
  replace=["_h3ToFaceIjk/_h3ToFaceIjk_safe", "isPentagon", "_faceIjkToCellBoundary/_faceIjkToCellBoundary_frame",
           "_faceIjkPentToCellBoundary/_faceIjkPentToCellBoundary_frame"])
J(name="c13.cellToChildPos.badres", props=["C13", "C12"], harness="c13.c", entry="h_cellToChildPos", enforce=["cellToChildPos/cellToChildPos_badres"],
  unwind=17, replay=dict(fn="cellToChildPos", args=["child", "parentRes"]))
J(name="c13.childPosToCell.badres", props=["C13", "C12"], harness="c13.c", entry="h_childPosToCell", enforce=["childPosToCell/childPosToCell_badres"],
  unwind=17, replay=dict(fn="childPosToCell", args=["pos", "parent", "childRes"]))

# the hierarchical polygon walk itself: removes the main assumed contract of C17/C15 if it closes
WALK_INV = "iter->_bboxes == __CPROVER_loop_entry(iter->_bboxes) && iter->_bboxes != (void*)0 && h3v_live == h3v_live0 + 1 && " \
           "iter->_res == __CPROVER_loop_entry(iter->_res) && iter->_res >= 0 && iter->_res <= 15 && " \
           "iter->_polygon == __CPROVER_loop_entry(iter->_polygon) && iter->_flags == __CPROVER_loop_entry(iter->_flags) && " \
           "(cell != 0 ==> S_RES(cell) <= iter->_res)"
J(name="c17.iterStepPolygonCompact", props=["C17", "C15"], harness="c17b.c", entry="h_iterStepPolygonCompact", alloc=True, timeout=1800, tier="never",  # out of memory: the contract stays ASSUMED
  enforce=["iterStepPolygonCompact/iterStepPolygonCompact_full"], unwind=18, checks=["--no-standard-checks"],
  replace=["isPentagon", "pointInsidePolygon/pointInsidePolygon_fr", "bboxContains/bboxContains_fr", "bboxContainsBBox/bboxContainsBBox_fr",
           "bboxOverlapsBBox/bboxOverlapsBBox_fr", "bboxToCellBoundary/bboxToCellBoundary_fr", "cellBoundaryInsidePolygon/cellBoundaryInsidePolygon_fr",
           "cellBoundaryCrossesPolygon/cellBoundaryCrossesPolygon_fr", "cellToBBox/cellToBBox_fr", "cellToBoundary/cellToBoundary_fr",
           "cellToLatLng/cellToLatLng_fr", "latLngToCell/latLngToCell_fr", "cellToCenterChild/cellToCenterChild_rw"],
  loops=[dict(fn="iterStepPolygonCompact", loop=0, locals=["cell", "iter"], assigns="cell, *iter, h3v_live", inv=WALK_INV),
         dict(fn="nextCell", loop=0, locals=["res", "cell"], assigns="res, cell",
              inv="0 <= res && res <= 15 && res == S_RES(cell) && res <= __CPROVER_loop_entry(res)", dec="res")])

J(name="c19.pentagons.enum", props=["C19"], harness="c19.c", entry="h_pentagon_faces_enum", unwind=20, timeout=1800, tier="never")  # concrete enumeration still > 30 min

for pp in range(12):
    for rr in range(16):
        J(name="c19.pent.%d.%d" % (pp, rr), props=["C19"], harness="c19.c", entry="h_pentagon_faces_one", defs=["PENT_P=%d" % pp, "PENT_R=%d" % rr],
          unwind=20, timeout=600, tier="quick", replay=dict(fn="pentagonFaces", args=["=%d" % pp, "=%d" % rr]))

J(name="c05.gridDisksUnsafe.b3", props=["C05"], harness="c05.c", entry="h_gridDisksUnsafe", enforce=["gridDisksUnsafe/gridDisksUnsafe_b3"],
  replace=["gridDiskUnsafe/gridDiskUnsafe_w", "maxGridDiskSize/maxGridDiskSize_ghost"], unwind=5,
  bound_note="at most 3 input cells, segment size 7 (k = 1): error propagation across the input cells",
  replay=dict(fn="gridDisksUnsafe", args=[]))

for lres, tier in ((0, "never"), (1, "never"), (2, "never")):   # out of memory even at resolution 0 (nested rotation loops): parked
    J(name="c09.localIjkToCell.res%d" % lres, props=["C09", "C12"], harness="c12.c", entry="h_localIjkToCell_res", defs=["LRES=%d" % lres],
      enforce=["localIjkToCell/localIjkToCell_safe"], replace=["_upAp7Checked", "_upAp7rChecked"], unwind=17, timeout=1200, tier=tier,
      bound_note="origin resolution fixed to %d; all 64-bit origins of that resolution, all non-negative int32 IJK: memory safety and arithmetic" % lres)
