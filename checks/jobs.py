"""Job table: every CBMC run the driver knows, and per-property metadata."""
JOBS = []
PROPS = {}
SOURCE_COMMITS = []
# properties not (yet) claimed, with the reason that goes to MANIFEST.not_applicable
UNCLAIMED = {}


def J(**kw):
    kw.setdefault("tier", "quick")
    JOBS.append(kw)
    return kw


# ------------------------------------------------------------------ C01
PROPS["C01"] = dict(
    level="proof",
    explanation="isValidCell(h) <=> documented layout for all 2^64 h, by an enforced contract on the real isValidCell; "
                "closure clause as S_VALID_CELL postconditions of the producers under contract",
    trusted_base=[], not_decided=[], assumptions=[],
    level_text="Unbounded proof: the contract 'result != 0 <=> documented layout' is enforced on the real isValidCell for all 2^64 "
               "inputs (one SAT query, no sampling); the closure clause is carried as S_VALID_CELL postconditions in the contracts of "
               "the bit-level producers.",
    level_note="Trusts CBMC/goto-instrument/MiniSat and the x86-64 machine model; closure for producers whose validity depends on "
               "floating point (latLngToCell, localIjToCell) is not decided.")

J(name="c01.isValidCell", props=["C01", "C12", "C18"], harness="c01_isValidCell.c", entry="h_isValidCell",
  enforce=["isValidCell"], replay=dict(fn="isValidCell", args=["h"]))

# ------------------------------------------------------------------ C20
PROPS["C20"] = dict(
    level="proof",
    explanation="library half of the round trip proved by enforced contracts on h3ToString/stringToH3 (size guard, frame, exactly one "
                "formatter/parser call with format \"%lx\" on the full 64-bit value, return codes); libc half assumed",
    trusted_base=["ASSUMED contracts of sprintf/sscanf for the format \"%lx\" (contracts/c20.contracts.h): lowercase unpadded hex, "
                  "1..16 digits + NUL; the parser inverts the formatter and stores nothing unless it returns 1"],
    not_decided=["that the C library's sprintf(\"%lx\") really prints lowercase unpadded hexadecimal and sscanf inverts it (assumed)"],
    assumptions=["PRIx64 expands to \"lx\" on this platform (checked: the call-site precondition compares the real format bytes)"],
    level_text="Unbounded proof of every clause that is about h3 code: for all 2^64 h and all buffer sizes, h3ToString refuses sz<17 "
               "without touching the buffer (frame condition) and otherwise makes exactly one formatter call with format %lx, the full "
               "64-bit h and the caller's buffer; stringToH3 makes one parser call and returns its value or E_FAILED leaving *out "
               "untouched; the round trip is a lemma composed from the contracts.",
    level_note="The behaviour of libc's sprintf/sscanf for \"%lx\" is an assumed contract (its preconditions are checked at the real "
               "call sites). Trusts CBMC/DFCC/MiniSat.")
J(name="c20.h3ToString", props=["C20", "C12", "C18"], harness="c20.c", entry="h_h3ToString",
  enforce=["h3ToString"], replace=["h3v_sprintf_lx"], replay=dict(fn="h3ToString", args=["h", "sz"]))
J(name="c20.stringToH3", props=["C20", "C12", "C18"], harness="c20.c", entry="h_stringToH3",
  enforce=["stringToH3"], replace=["h3v_sscanf_lx"], replay=dict(fn="stringToH3", args=[]))
J(name="c20.roundtrip", props=["C20"], harness="c20.c", entry="h_roundtrip",
  replace=["h3ToString", "stringToH3"], replay=dict(fn="h3ToString", args=["h", "=17"]))

# ------------------------------------------------------------------ C04
UNW = dict(unwind=17, cbmc=[])   # digit loops: at most 15 iterations (4-bit resolution field); unwinding assertions make it complete
J(name="c04.isPentagon", props=["C04", "C12", "C18"], harness="c04.c", entry="h_isPentagon",
  enforce=["isPentagon"], unwind=17, replay=dict(fn="isPentagon", args=["h"]))
J(name="c04.ipow", props=["C04", "C13"], harness="c04.c", entry="h_ipow", enforce=["_ipow"], unwind=6)
J(name="c04.cellToParent", props=["C04", "C12", "C18", "C01"], harness="c04.c", entry="h_cellToParent",
  enforce=["cellToParent"],
  loops=[dict(fn="cellToParent", loop=0, locals=["i", "parentH", "parentRes", "childRes", "h"],
              assigns="i, parentH",
              inv="parentRes + 1 <= i && i <= childRes + 1 && childRes <= 15 && parentRes >= 0 && "
                  "parentH == (S_SETRES(h, parentRes) | S_MASK_BETWEEN(parentRes, i - 1))",
              dec="childRes + 1 - i")],
  replay=dict(fn="cellToParent", args=["h", "parentRes"]))
J(name="c04.cellToChildrenSize", props=["C04", "C12", "C18"], harness="c04.c", entry="h_cellToChildrenSize",
  enforce=["cellToChildrenSize"], replace=["isPentagon", "_ipow"],
  replay=dict(fn="cellToChildrenSize", args=["h", "childRes"]))
J(name="c04.cellToCenterChild", props=["C04", "C12", "C18", "C01"], harness="c04.c", entry="h_cellToCenterChild",
  enforce=["cellToCenterChild"], replay=dict(fn="cellToCenterChild", args=["h", "childRes"]))

J(name="c04.iterInitParent", props=["C04", "C12", "C18"], harness="c04.c", entry="h_iterInitParent",
  enforce=["_iterInitParent"], replace=["isPentagon"])
J(name="c04.iterStepChild.bits", props=["C04", "C12", "C18"], harness="c04.c", entry="h_iterStepChild",
  enforce=["iterStepChild/iterStepChild_bits_contract"], unwind=18, timeout=1800)

# position arithmetic of the step, one complete proof per (parentRes, childRes) pair (the 136 pairs are the whole domain)
PAIRS = [(pr, cr) for pr in range(16) for cr in range(pr, 16)]
for (pr, cr) in PAIRS:
    J(name="c04.iterStepChild.pos.%d.%d" % (pr, cr), props=["C04"], harness="c04.c", entry="h_iterStepChild_pair",
      defs=["PR=%d" % pr, "CR=%d" % cr], enforce=["iterStepChild"], unwind=18, timeout=900, pair=(pr, cr),
      tier="quick" if cr - pr <= 1 or (pr, cr) in ((0, 15), (3, 9)) else "thorough")

J(name="lemma.rank.base", props=["C04", "C13"], harness="lemmas.c", entry="h_lemma_base")
for lev in range(1, 16):
    J(name="lemma.rank.unfold.%d" % lev, props=["C04", "C13"], harness="lemmas.c", entry="h_lemma_unfold",
      defs=["LEVEL=%d" % lev], timeout=600)
    J(name="lemma.rank.step.%d" % lev, props=["C04", "C13"], harness="lemmas.c", entry="h_lemma_step",
      defs=["LEVEL=%d" % lev], timeout=600)
